//! Blocking primitives whose timeouts read the *virtual* clock.
//!
//! shuttle's timed operations (`Condvar::wait_timeout`, `Receiver::recv_timeout`,
//! `park_timeout`) never time out. A program that relies on a timeout - for good
//! or for bad - would behave differently under the simulator than in reality, so
//! these are implemented here on top of the scheduler's sleeper mechanism: a task
//! that waits is not runnable before its virtual deadline unless somebody wakes it.

use crate::rt;
use crate::shim::std::thread::NS_PER_TICK;
use std::ops::{Deref, DerefMut};
use std::sync::atomic::{AtomicBool, Ordering};
use std::sync::{Arc, LockResult, PoisonError, TryLockError, TryLockResult};
use std::time::Duration;

pub const FOREVER: u64 = u64::MAX;

pub fn ticks_of(d: Duration) -> u64 {
    (d.as_nanos().min(u64::MAX as u128 / 2) as u64).div_ceil(NS_PER_TICK)
}

/// Block the calling task until `cond()` holds or the virtual clock reaches
/// `deadline` (ticks; `FOREVER` = no timeout). Returns whether `cond()` held.
/// Wake-ups may be spurious; `cond` is re-evaluated after each.
pub fn wait_until(deadline: u64, mut cond: impl FnMut() -> bool) -> bool {
    loop {
        if cond() {
            return true;
        }
        let me = rt::current_task();
        let expired = rt::with(|st| {
            if st.now >= deadline {
                return true;
            }
            let i = me as usize;
            if st.wake.len() <= i {
                st.wake.resize(i + 1, 0);
            }
            st.wake[i] = deadline;
            false
        });
        if expired {
            return cond();
        }
        // the scheduler resumes us when we were woken (wake entry cleared) or at the deadline
        shuttle::thread::sleep(Duration::ZERO); // a plain scheduling point
    }
}

/// Make `task` runnable again if it sleeps in `wait_until`.
pub fn wake(task: u32) {
    rt::try_with(|st| {
        if let Some(w) = st.wake.get_mut(task as usize) {
            *w = 0;
        }
    });
}

fn deadline_after(d: Duration) -> u64 {
    rt::with(|st| st.now.saturating_add(ticks_of(d)))
}

// ------------------------------------------------------------------ Mutex / Condvar

pub struct Mutex<T: ?Sized>(shuttle::sync::Mutex<T>);

pub struct MutexGuard<'a, T: ?Sized> {
    mutex: &'a Mutex<T>,
    inner: shuttle::sync::MutexGuard<'a, T>,
}

impl<T> Mutex<T> {
    pub const fn new(t: T) -> Self {
        Mutex(shuttle::sync::Mutex::new(t))
    }
    pub fn into_inner(self) -> LockResult<T> {
        self.0.into_inner()
    }
}

impl<T: ?Sized> Mutex<T> {
    pub fn lock(&self) -> LockResult<MutexGuard<'_, T>> {
        match self.0.lock() {
            Ok(inner) => Ok(MutexGuard { mutex: self, inner }),
            Err(p) => Err(PoisonError::new(MutexGuard { mutex: self, inner: p.into_inner() })),
        }
    }
    pub fn try_lock(&self) -> TryLockResult<MutexGuard<'_, T>> {
        match self.0.try_lock() {
            Ok(inner) => Ok(MutexGuard { mutex: self, inner }),
            Err(TryLockError::WouldBlock) => Err(TryLockError::WouldBlock),
            Err(TryLockError::Poisoned(p)) => {
                Err(TryLockError::Poisoned(PoisonError::new(MutexGuard { mutex: self, inner: p.into_inner() })))
            }
        }
    }
    pub fn get_mut(&mut self) -> LockResult<&mut T> {
        self.0.get_mut()
    }
}

impl<T: Default> Default for Mutex<T> {
    fn default() -> Self {
        Mutex::new(T::default())
    }
}

impl<T> From<T> for Mutex<T> {
    fn from(t: T) -> Self {
        Mutex::new(t)
    }
}

impl<T: ?Sized> std::fmt::Debug for Mutex<T> {
    fn fmt(&self, f: &mut std::fmt::Formatter<'_>) -> std::fmt::Result {
        f.write_str("Mutex { .. }")
    }
}

impl<T: ?Sized> Deref for MutexGuard<'_, T> {
    type Target = T;
    fn deref(&self) -> &T {
        &self.inner
    }
}

impl<T: ?Sized> DerefMut for MutexGuard<'_, T> {
    fn deref_mut(&mut self) -> &mut T {
        &mut self.inner
    }
}

impl<T: ?Sized + std::fmt::Debug> std::fmt::Debug for MutexGuard<'_, T> {
    fn fmt(&self, f: &mut std::fmt::Formatter<'_>) -> std::fmt::Result {
        std::fmt::Debug::fmt(&**self, f)
    }
}

#[derive(Debug, PartialEq, Eq, Copy, Clone)]
pub struct WaitTimeoutResult(bool);

impl WaitTimeoutResult {
    pub fn timed_out(&self) -> bool {
        self.0
    }
}

struct Waiter {
    task: u32,
    notified: Arc<AtomicBool>,
}

/// Condition variable over the wrapper Mutex. Bookkeeping uses plain std
/// primitives that are never held across a scheduling point.
#[derive(Default)]
pub struct Condvar {
    waiters: std::sync::Mutex<Vec<Waiter>>,
}

impl std::fmt::Debug for Condvar {
    fn fmt(&self, f: &mut std::fmt::Formatter<'_>) -> std::fmt::Result {
        f.write_str("Condvar { .. }")
    }
}

impl Condvar {
    pub const fn new() -> Self {
        Condvar { waiters: std::sync::Mutex::new(Vec::new()) }
    }

    fn wait_deadline<'a, T: ?Sized>(&self, guard: MutexGuard<'a, T>, deadline: u64) -> (LockResult<MutexGuard<'a, T>>, bool) {
        let me = rt::current_task();
        let notified = Arc::new(AtomicBool::new(false));
        // register before the lock is released: a notify that happens after the release finds us
        self.waiters.lock().unwrap().push(Waiter { task: me, notified: notified.clone() });
        let mutex = guard.mutex;
        drop(guard);
        let ok = wait_until(deadline, || notified.load(Ordering::SeqCst));
        if !ok {
            self.waiters.lock().unwrap().retain(|w| !Arc::ptr_eq(&w.notified, &notified));
        }
        (mutex.lock(), !ok && !notified.load(Ordering::SeqCst))
    }

    pub fn wait<'a, T: ?Sized>(&self, guard: MutexGuard<'a, T>) -> LockResult<MutexGuard<'a, T>> {
        self.wait_deadline(guard, FOREVER).0
    }

    pub fn wait_while<'a, T: ?Sized, F>(&self, mut guard: MutexGuard<'a, T>, mut condition: F) -> LockResult<MutexGuard<'a, T>>
    where
        F: FnMut(&mut T) -> bool,
    {
        while condition(&mut *guard) {
            guard = self.wait(guard)?;
        }
        Ok(guard)
    }

    pub fn wait_timeout<'a, T: ?Sized>(
        &self,
        guard: MutexGuard<'a, T>,
        dur: Duration,
    ) -> LockResult<(MutexGuard<'a, T>, WaitTimeoutResult)> {
        let (g, timed_out) = self.wait_deadline(guard, deadline_after(dur));
        match g {
            Ok(g) => Ok((g, WaitTimeoutResult(timed_out))),
            Err(p) => Err(PoisonError::new((p.into_inner(), WaitTimeoutResult(timed_out)))),
        }
    }

    pub fn wait_timeout_while<'a, T: ?Sized, F>(
        &self,
        mut guard: MutexGuard<'a, T>,
        dur: Duration,
        mut condition: F,
    ) -> LockResult<(MutexGuard<'a, T>, WaitTimeoutResult)>
    where
        F: FnMut(&mut T) -> bool,
    {
        let deadline = deadline_after(dur);
        loop {
            if !condition(&mut *guard) {
                return Ok((guard, WaitTimeoutResult(false)));
            }
            if rt::with(|st| st.now >= deadline) {
                return Ok((guard, WaitTimeoutResult(true)));
            }
            let (g, _) = self.wait_deadline(guard, deadline);
            guard = match g {
                Ok(g) => g,
                Err(p) => return Err(PoisonError::new((p.into_inner(), WaitTimeoutResult(false)))),
            };
        }
    }

    pub fn notify_one(&self) {
        shuttle::thread::sleep(Duration::ZERO);
        let w = {
            let mut ws = self.waiters.lock().unwrap();
            if ws.is_empty() {
                None
            } else {
                Some(ws.remove(0))
            }
        };
        if let Some(w) = w {
            w.notified.store(true, Ordering::SeqCst);
            wake(w.task);
        }
    }

    pub fn notify_all(&self) {
        shuttle::thread::sleep(Duration::ZERO);
        let ws: Vec<Waiter> = std::mem::take(&mut *self.waiters.lock().unwrap());
        for w in ws {
            w.notified.store(true, Ordering::SeqCst);
            wake(w.task);
        }
    }
}

// ------------------------------------------------------------------ mpsc with recv_timeout

pub mod mpsc {
    use super::{deadline_after, wait_until, wake, FOREVER};
    use crate::rt;
    pub use std::sync::mpsc::{RecvError, RecvTimeoutError, SendError, TryRecvError, TrySendError};
    use std::sync::atomic::{AtomicU32, Ordering};
    use std::sync::Arc;
    use std::time::Duration;

    const NOBODY: u32 = u32::MAX;

    /// task currently sleeping in recv_timeout on this channel (at most one receiver exists)
    #[derive(Debug)]
    struct Slot(AtomicU32);

    impl Slot {
        fn poke(&self) {
            let t = self.0.swap(NOBODY, Ordering::SeqCst);
            if t != NOBODY {
                wake(t);
            }
        }
    }

    #[derive(Debug)]
    pub struct Sender<T> {
        inner: shuttle::sync::mpsc::Sender<T>,
        slot: Arc<Slot>,
    }
    #[derive(Debug)]
    pub struct SyncSender<T> {
        inner: shuttle::sync::mpsc::SyncSender<T>,
        slot: Arc<Slot>,
    }
    #[derive(Debug)]
    pub struct Receiver<T> {
        inner: shuttle::sync::mpsc::Receiver<T>,
        slot: Arc<Slot>,
    }

    pub fn channel<T>() -> (Sender<T>, Receiver<T>) {
        let (tx, rx) = shuttle::sync::mpsc::channel();
        let slot = Arc::new(Slot(AtomicU32::new(NOBODY)));
        (Sender { inner: tx, slot: slot.clone() }, Receiver { inner: rx, slot })
    }

    pub fn sync_channel<T>(bound: usize) -> (SyncSender<T>, Receiver<T>) {
        let (tx, rx) = shuttle::sync::mpsc::sync_channel(bound);
        let slot = Arc::new(Slot(AtomicU32::new(NOBODY)));
        (SyncSender { inner: tx, slot: slot.clone() }, Receiver { inner: rx, slot })
    }

    impl<T> Sender<T> {
        pub fn send(&self, t: T) -> Result<(), SendError<T>> {
            let r = self.inner.send(t);
            self.slot.poke();
            r
        }
    }
    impl<T> Clone for Sender<T> {
        fn clone(&self) -> Self {
            Sender { inner: self.inner.clone(), slot: self.slot.clone() }
        }
    }
    impl<T> Drop for Sender<T> {
        fn drop(&mut self) {
            // a disconnect must wake a receiver that sleeps with a timeout
            self.slot.poke();
        }
    }

    impl<T> SyncSender<T> {
        pub fn send(&self, t: T) -> Result<(), SendError<T>> {
            let r = self.inner.send(t);
            self.slot.poke();
            r
        }
        pub fn try_send(&self, t: T) -> Result<(), TrySendError<T>> {
            let r = self.inner.try_send(t);
            self.slot.poke();
            r
        }
    }
    impl<T> Clone for SyncSender<T> {
        fn clone(&self) -> Self {
            SyncSender { inner: self.inner.clone(), slot: self.slot.clone() }
        }
    }
    impl<T> Drop for SyncSender<T> {
        fn drop(&mut self) {
            self.slot.poke();
        }
    }

    impl<T> Receiver<T> {
        pub fn recv(&self) -> Result<T, RecvError> {
            self.inner.recv()
        }
        pub fn try_recv(&self) -> Result<T, TryRecvError> {
            self.inner.try_recv()
        }
        fn recv_deadline(&self, deadline: u64) -> Result<T, RecvTimeoutError> {
            loop {
                match self.inner.try_recv() {
                    Ok(v) => return Ok(v),
                    Err(TryRecvError::Disconnected) => return Err(RecvTimeoutError::Disconnected),
                    Err(TryRecvError::Empty) => {}
                }
                if rt::with(|st| st.now >= deadline) {
                    return Err(RecvTimeoutError::Timeout);
                }
                let me = rt::current_task();
                self.slot.0.store(me, Ordering::SeqCst);
                // woken by the next send / disconnect, or by the deadline
                let mut first = true;
                wait_until(deadline, || !std::mem::replace(&mut first, false));
                self.slot.0.store(NOBODY, Ordering::SeqCst);
            }
        }
        pub fn recv_timeout(&self, timeout: Duration) -> Result<T, RecvTimeoutError> {
            self.recv_deadline(deadline_after(timeout))
        }
        pub fn iter(&self) -> Iter<'_, T> {
            Iter { rx: self }
        }
        pub fn try_iter(&self) -> TryIter<'_, T> {
            TryIter { rx: self }
        }
        #[allow(dead_code)]
        fn recv_forever(&self) -> Result<T, RecvTimeoutError> {
            self.recv_deadline(FOREVER)
        }
    }

    pub struct Iter<'a, T> {
        rx: &'a Receiver<T>,
    }
    pub struct TryIter<'a, T> {
        rx: &'a Receiver<T>,
    }
    pub struct IntoIter<T> {
        rx: Receiver<T>,
    }
    impl<T> Iterator for Iter<'_, T> {
        type Item = T;
        fn next(&mut self) -> Option<T> {
            self.rx.recv().ok()
        }
    }
    impl<T> Iterator for TryIter<'_, T> {
        type Item = T;
        fn next(&mut self) -> Option<T> {
            self.rx.try_recv().ok()
        }
    }
    impl<T> Iterator for IntoIter<T> {
        type Item = T;
        fn next(&mut self) -> Option<T> {
            self.rx.recv().ok()
        }
    }
    impl<'a, T> IntoIterator for &'a Receiver<T> {
        type Item = T;
        type IntoIter = Iter<'a, T>;
        fn into_iter(self) -> Iter<'a, T> {
            self.iter()
        }
    }
    impl<T> IntoIterator for Receiver<T> {
        type Item = T;
        type IntoIter = IntoIter<T>;
        fn into_iter(self) -> IntoIter<T> {
            IntoIter { rx: self }
        }
    }
}

// ------------------------------------------------------------------ park / unpark

/// Handle to a simulated thread (what `thread::current()` and `JoinHandle::thread()` return).
#[derive(Clone, Debug)]
pub struct Thread {
    /// engine task id; written by the thread itself when it starts
    cell: Arc<std::sync::atomic::AtomicU32>,
    name: Option<String>,
}

#[derive(Clone, Copy, Debug, PartialEq, Eq, Hash)]
pub struct ThreadId(u32);

const UNKNOWN: u32 = u32::MAX;

impl Thread {
    pub(crate) fn not_started(name: Option<String>) -> (Self, Arc<std::sync::atomic::AtomicU32>) {
        let cell = Arc::new(std::sync::atomic::AtomicU32::new(UNKNOWN));
        (Thread { cell: cell.clone(), name }, cell)
    }
    fn task(&self) -> u32 {
        loop {
            let t = self.cell.load(Ordering::SeqCst);
            if t != UNKNOWN {
                return t;
            }
            // spawned but not scheduled yet
            shuttle::thread::yield_now();
        }
    }
    pub fn id(&self) -> ThreadId {
        ThreadId(self.task())
    }
    pub fn name(&self) -> Option<&str> {
        self.name.as_deref()
    }
    pub fn unpark(&self) {
        shuttle::thread::sleep(Duration::ZERO);
        let task = self.task();
        rt::try_with(|st| {
            let i = task as usize;
            if st.park_token.len() <= i {
                st.park_token.resize(i + 1, false);
            }
            st.park_token[i] = true;
        });
        wake(task);
    }
}

pub fn current() -> Thread {
    let t = shuttle::thread::current();
    Thread {
        cell: Arc::new(std::sync::atomic::AtomicU32::new(rt::current_task())),
        name: t.name().map(|s| s.to_string()),
    }
}

fn take_token() -> bool {
    let me = rt::current_task() as usize;
    rt::with(|st| {
        if st.park_token.len() <= me {
            st.park_token.resize(me + 1, false);
        }
        std::mem::replace(&mut st.park_token[me], false)
    })
}

pub fn park() {
    wait_until(FOREVER, take_token);
}

pub fn park_timeout(dur: Duration) {
    let deadline = deadline_after(dur);
    wait_until(deadline, take_token);
}

// ------------------------------------------------------------------ Instant

/// `std::time::Instant` on the virtual clock.
#[derive(Clone, Copy, Debug, PartialEq, Eq, PartialOrd, Ord, Hash)]
pub struct Instant(u64);

impl Instant {
    pub fn now() -> Instant {
        if !rt::in_run() {
            return Instant(0);
        }
        Instant(rt::with(|st| st.now))
    }
    fn dur(ticks: u64) -> Duration {
        Duration::from_nanos(ticks.saturating_mul(NS_PER_TICK))
    }
    pub fn elapsed(&self) -> Duration {
        Instant::now().saturating_duration_since(*self)
    }
    pub fn duration_since(&self, earlier: Instant) -> Duration {
        self.saturating_duration_since(earlier)
    }
    pub fn saturating_duration_since(&self, earlier: Instant) -> Duration {
        Self::dur(self.0.saturating_sub(earlier.0))
    }
    pub fn checked_duration_since(&self, earlier: Instant) -> Option<Duration> {
        self.0.checked_sub(earlier.0).map(Self::dur)
    }
    pub fn checked_add(&self, d: Duration) -> Option<Instant> {
        self.0.checked_add(ticks_of(d)).map(Instant)
    }
    pub fn checked_sub(&self, d: Duration) -> Option<Instant> {
        self.0.checked_sub(ticks_of(d)).map(Instant)
    }
}

impl std::ops::Add<Duration> for Instant {
    type Output = Instant;
    fn add(self, d: Duration) -> Instant {
        Instant(self.0.saturating_add(ticks_of(d)))
    }
}
impl std::ops::Sub<Duration> for Instant {
    type Output = Instant;
    fn sub(self, d: Duration) -> Instant {
        Instant(self.0.saturating_sub(ticks_of(d)))
    }
}
impl std::ops::Sub<Instant> for Instant {
    type Output = Duration;
    fn sub(self, o: Instant) -> Duration {
        self.saturating_duration_since(o)
    }
}
impl std::ops::AddAssign<Duration> for Instant {
    fn add_assign(&mut self, d: Duration) {
        *self = *self + d;
    }
}
