//! Deterministic-simulation runtime for ad-freiburg/text-utils: a seeded
//! scheduler on top of shuttle's execution engine, a virtual clock, simulated
//! process exit / panic hook / OS entropy, a thread registry and an event log.

pub mod prng;
pub mod process;
pub mod rt;
pub mod sched;
pub mod shim;
pub mod timed;

pub use process::{run_process, ProcResult, ProcSpec, Status};
pub use rt::{Event, Kind, Mode};

/// `thread_local!` with one value per simulated thread (engine tasks share an OS thread)
pub use shuttle::thread_local;
