//! The seeded scheduler. Implements shuttle's `Scheduler` trait; every decision
//! is drawn from the run's PRNG (or from a recorded trace), recorded, and
//! advances the virtual clock by one tick.

use crate::rt::{self, Mode, RunState, StopReason};
use shuttle::scheduler::{Schedule, Scheduler, Task, TaskId};

/// consecutive picks of one task (while others could run) before the PCT mode demotes it
const PCT_FAIRNESS: u32 = 24;

/// trace entry that is not a task id: the clock was warped to the next wake-up before this decision
pub const WARP_MARK: u16 = u16::MAX;

/// panic payload that ends a simulated process (see `next_task`)
pub struct StopRun;

pub struct SimScheduler {
    started: bool,
}

impl SimScheduler {
    pub fn new() -> Self {
        SimScheduler { started: false }
    }
}

impl Default for SimScheduler {
    fn default() -> Self {
        Self::new()
    }
}

fn tid(t: &Task) -> u32 {
    usize::from(t.id()) as u32
}

fn choose(st: &mut RunState, cands: &[u32], current: Option<u32>, is_yielding: bool) -> Option<u32> {
    debug_assert!(!cands.is_empty());
    match st.mode.clone() {
        Mode::Uniform => {
            if is_yielding && cands.len() > 1 {
                if let Some(c) = current {
                    let others: Vec<u32> = cands.iter().copied().filter(|x| *x != c).collect();
                    if !others.is_empty() {
                        return Some(others[st.rng.below(others.len() as u64) as usize]);
                    }
                }
            }
            Some(cands[st.rng.below(cands.len() as u64) as usize])
        }
        Mode::Sticky(permille) => {
            if let Some(c) = current {
                if !is_yielding && cands.contains(&c) && st.rng.below(1000) < permille as u64 {
                    // a spinning task would otherwise keep the processor for ever with
                    // probability 1 only in the limit; bound the burst length
                    if !(st.streak_task == c && st.streak_len >= 400 && cands.len() > 1) {
                        return Some(c);
                    }
                }
                if cands.len() > 1 {
                    let others: Vec<u32> = cands.iter().copied().filter(|x| *x != c).collect();
                    if !others.is_empty() {
                        return Some(others[st.rng.below(others.len() as u64) as usize]);
                    }
                }
            }
            Some(cands[st.rng.below(cands.len() as u64) as usize])
        }
        Mode::Pct(_) => {
            // assign priorities lazily (high = preferred)
            for &c in cands {
                let i = c as usize;
                if st.prio.len() <= i {
                    st.prio.resize(i + 1, i64::MIN);
                }
                if st.prio[i] == i64::MIN {
                    st.prio[i] = 1_000 + st.rng.below(1_000_000) as i64;
                }
            }
            // priority change point: demote the task that would run now
            let best = |st: &RunState| {
                let mut b = cands[0];
                for &c in cands {
                    if st.prio[c as usize] > st.prio[b as usize] {
                        b = c;
                    }
                }
                b
            };
            let mut b = best(st);
            let at_change = st.change_points.contains(&st.decisions);
            let unfair = st.streak_task == b && st.streak_len >= PCT_FAIRNESS && cands.len() > 1;
            let yielding = is_yielding && current == Some(b) && cands.len() > 1;
            if at_change || unfair || yielding {
                // new lowest priority: below everything handed out so far
                // (unbounded below: a long run demotes many thousand times, and priorities that
                // saturate would freeze the order and starve everybody but one task)
                let low = st.prio.iter().copied().filter(|p| *p != i64::MIN).min().unwrap_or(1_000);
                st.prio[b as usize] = low - 1;
                b = best(st);
            }
            Some(b)
        }
        Mode::Replay { strict } => {
            let mut want = st.replay.get(st.replay_pos).copied();
            st.replay_pos += 1;
            while want == Some(WARP_MARK) {
                // a warp that could not be applied here (tolerant replay of an edited trace)
                want = st.replay.get(st.replay_pos).copied();
                st.replay_pos += 1;
            }
            match want {
                Some(w) if cands.contains(&(w as u32)) => Some(w as u32),
                _ => {
                    if strict {
                        st.stop = Some(StopReason::ReplayDiverged);
                        None
                    } else {
                        st.replay_misses += 1;
                        // tolerant: prefer to continue the current task, else lowest id
                        match current {
                            Some(c) if cands.contains(&c) && !is_yielding => Some(c),
                            _ => {
                                let others: Vec<u32> =
                                    cands.iter().copied().filter(|x| Some(*x) != current).collect();
                                Some(*others.iter().min().unwrap_or(&cands[0]))
                            }
                        }
                    }
                }
            }
        }
    }
}

impl Scheduler for SimScheduler {
    fn new_execution(&mut self) -> Option<Schedule> {
        if self.started {
            None
        } else {
            self.started = true;
            Some(Schedule::new(0))
        }
    }

    fn next_task(
        &mut self,
        runnable: &[&Task],
        current: Option<TaskId>,
        is_yielding: bool,
    ) -> Option<TaskId> {
        let r = rt::try_with(|st| {
            if st.stop.is_some() {
                return None;
            }
            if std::thread::panicking() {
                // The current task is unwinding from a panic of the simulated program (its hook
                // did not end the process) and reached a synchronisation point, typically the
                // release of a lock it held. Let it go on without a context switch: destructors
                // further up its stack may still end the process. (All simulated threads share
                // one OS thread, so an unwinding task cannot be suspended in favour of another.)
                let cur = current.map(|c| usize::from(c) as u32);
                if let Some(c) = cur {
                    if runnable.iter().any(|t| tid(t) == c) {
                        st.decisions += 1;
                        st.now += 1;
                        if matches!(st.mode, Mode::Replay { .. }) && st.replay_pos < st.replay.len() {
                            st.replay_pos += 1;
                        }
                        st.trace.push(c as u16);
                        return Some(c);
                    }
                }
                // it blocks while unwinding: nothing further up its stack will run
                st.stop = Some(StopReason::PanicUnwindAtSyncPoint);
                return None;
            }
            st.decisions += 1;
            st.now += 1;
            if st.decisions > st.step_cap {
                st.stop = Some(StopReason::StepCap);
                return None;
            }
            if let Mode::Pct(d) = st.mode {
                if st.change_points.is_empty() && d > 0 {
                    // change points over a horizon typical for the scenarios
                    let horizon = [60u64, 300, 1500, 6000][st.rng.below(4) as usize];
                    for _ in 0..d {
                        let p = 1 + st.rng.below(horizon);
                        st.change_points.push(p);
                    }
                }
            }
            let current = current.map(|c| usize::from(c) as u32);
            // ---- time warp: while some task sleeps with a finite deadline, the clock may
            // jump to that deadline although other tasks are runnable (they simply got no
            // processor time in between - a legal execution). Without it a busy-waiting
            // task would have to be scheduled once per tick of a long virtual delay, and
            // long timeouts would be out of reach. Warps are part of the recorded trace.
            {
                let mut next_wake = u64::MAX;
                for t in runnable {
                    let w = st.wake.get(tid(t) as usize).copied().unwrap_or(0);
                    if w > st.now && w != crate::timed::FOREVER {
                        next_wake = next_wake.min(w);
                    }
                }
                let warp = match st.mode {
                    Mode::Replay { .. } => {
                        if st.replay.get(st.replay_pos).copied() == Some(WARP_MARK) {
                            st.replay_pos += 1;
                            true
                        } else {
                            false
                        }
                    }
                    _ => next_wake != u64::MAX && st.since_jump >= 48 && st.rng.below(8) == 0,
                };
                if warp && next_wake != u64::MAX {
                    st.now = next_wake;
                    st.time_warps += 1;
                    st.since_jump = 0;
                    st.trace.push(WARP_MARK);
                } else {
                    st.since_jump += 1;
                }
            }
            let mut cands: Vec<u32> = Vec::with_capacity(runnable.len());
            let now = st.now;
            for t in runnable {
                let id = tid(t);
                st.max_tasks = st.max_tasks.max(id + 1);
                let w = st.wake.get(id as usize).copied().unwrap_or(0);
                if w <= now {
                    cands.push(id);
                }
            }
            if cands.is_empty() {
                // discrete-event jump to the earliest wake-up
                let mut earliest = u64::MAX;
                for t in runnable {
                    let w = st.wake.get(tid(t) as usize).copied().unwrap_or(0);
                    earliest = earliest.min(w);
                }
                if earliest == crate::timed::FOREVER {
                    // only tasks that wait without a timeout are left
                    st.stop = Some(StopReason::Deadlock);
                    return None;
                }
                st.now = earliest;
                st.time_jumps += 1;
                st.since_jump = 0;
                for t in runnable {
                    let id = tid(t);
                    if st.wake.get(id as usize).copied().unwrap_or(0) <= st.now {
                        cands.push(id);
                    }
                }
            }
            let pick = choose(st, &cands, current, is_yielding)?;
            if (pick as usize) < st.wake.len() {
                st.wake[pick as usize] = 0;
            }
            if st.streak_task == pick {
                st.streak_len += 1;
            } else {
                st.streak_task = pick;
                st.streak_len = 1;
            }
            if st.last_task != pick {
                st.switches += 1;
                st.last_task = pick;
            }
            st.trace.push(pick as u16);
            Some(pick)
        });
        match r {
            Some(Some(p)) => Some(TaskId::from(p as usize)),
            _ => {
                // The simulated process ends here. Ending it by unwinding (rather than by
                // returning None) makes the engine tear the execution down in its
                // "panicking" mode, in which suspended tasks are leaked instead of
                // unwound: no destructor of the simulated program runs after the end of
                // the process (a destructor that synchronises would otherwise reach the
                // engine in a state that has nothing left to schedule).
                std::panic::panic_any(StopRun)
            }
        }
    }

    fn next_u64(&mut self) -> u64 {
        rt::with(|st| st.rng.next_u64())
    }
}
