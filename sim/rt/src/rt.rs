//! Per-simulated-process state. One simulated process = one shuttle execution
//! on its own OS thread; all of its state is thread-local to that OS thread,
//! so many simulated processes run in parallel inside one harness process
//! without sharing anything.

use crate::prng::{Fnv, Rng};
use std::cell::RefCell;
use std::panic::PanicHookInfo;

pub type Hook = Box<dyn Fn(&PanicHookInfo<'_>) + Sync + Send + 'static>;

/// Event kinds. Scenario code logs its own observations with the `App*` kinds.
#[repr(u16)]
#[derive(Clone, Copy, Debug, PartialEq, Eq, Hash)]
pub enum Kind {
    ThreadSpawn = 1,
    ThreadStart = 2,
    ThreadExit = 3,
    ThreadPanic = 4,
    HookSet = 5,
    HookInvoked = 6,
    ProcessExit = 7,
    Sleep = 8,
    MainPanic = 9,
    // application level (scenario) events
    Pull = 20,     // upstream item handed out (a = index)
    PullEnd = 21,  // upstream returned None
    FnStart = 22,  // processing function entered (a = index)
    FnEnd = 23,    // processing function left (a = index)
    Recv = 24,     // consumer received item (a = index)
    RecvEnd = 25,  // consumer saw end of stream
    Drop = 26,     // consumer dropped the iterator (a = items consumed)
    Fault = 27,    // injected fault fired (a = fault kind, b = arg)
    Idle = 28,     // consumer idles (a = ticks)
    Batch = 29,    // consumer received batch (a = batch no, b = size)
    Note = 30,     // free-form marker (a, b)
}

#[derive(Clone, Debug, PartialEq, Eq, Hash)]
pub struct Event {
    /// scheduler decision number at which the event happened (global order)
    pub step: u64,
    /// simulated task that produced it (u32::MAX = outside a task)
    pub task: u32,
    pub kind: Kind,
    pub a: u64,
    pub b: u64,
}

#[derive(Clone, Debug)]
pub struct ThreadRec {
    pub name: String,
    pub started: bool,
    pub exited: bool,
    pub panicked: bool,
    pub spawn_step: u64,
    pub exit_step: u64,
}

#[derive(Clone, Debug, PartialEq)]
pub enum Mode {
    /// uniformly random runnable task at every scheduling point
    Uniform,
    /// keep running the current task with probability p (per mille)
    Sticky(u32),
    /// PCT-like: random priorities, `d` priority change points, with a fairness demotion
    Pct(u32),
    /// follow a recorded trace; strict = any mismatch is a divergence
    Replay { strict: bool },
}

#[derive(Clone, Debug, PartialEq, Eq)]
pub enum StopReason {
    /// the simulated process called exit(code)
    Exit(i32),
    /// step cap reached: tasks kept running without finishing
    StepCap,
    /// a simulated thread panicked, the process kept running, and the unwinding
    /// thread reached a synchronisation point (i.e. it held a lock)
    PanicUnwindAtSyncPoint,
    /// strict replay could not follow the recorded trace
    ReplayDiverged,
    /// the main thread returned: the process ends, whatever other threads were doing
    MainReturned,
    /// every task that could still run waits for ever (condition variable, park, recv with no
    /// timeout) and nobody is left to wake it
    Deadlock,
}

pub struct RunState {
    // ---- scheduler ----
    pub mode: Mode,
    pub rng: Rng,
    pub decisions: u64,
    pub switches: u64,
    pub step_cap: u64,
    pub trace: Vec<u16>,
    pub replay: Vec<u16>,
    pub replay_pos: usize,
    pub replay_misses: u64,
    pub prio: Vec<i64>,
    pub change_points: Vec<u64>,
    pub streak_task: u32,
    pub streak_len: u32,
    pub last_task: u32,
    // ---- virtual time (ticks) ----
    pub now: u64,
    pub wake: Vec<u64>, // per task id; 0 = not sleeping
    pub time_jumps: u64,
    pub park_token: Vec<bool>, // per task id
    pub since_jump: u64,
    pub time_warps: u64,
    /// fault: the process's standard output is stalled (a reader that does not read, or another
    /// thread holding the stdout lock): whoever writes to it blocks for ever
    pub stdout_stalled: bool,
    /// tasks that are (conceptually) blocked for ever inside a write to the stalled stdout
    pub blocked_on_stdout: Vec<u32>,
    // ---- shared worker pool (stand-in for rayon's global pool) ----
    /// number of pool threads of this simulated process (rayon: number of cores / RAYON_NUM_THREADS)
    pub pool_size: u32,
    /// pool threads currently running a job
    pub pool_busy: u32,
    pub pool_jobs: u64,
    /// tasks of jobs that wait for a free pool thread
    pub pool_waiters: Vec<u32>,
    /// what `std::thread::available_parallelism` reports to the simulated process (CPU affinity,
    /// container quota)
    pub cpus: u32,
    // ---- process ----
    pub hook: Option<Hook>,
    pub hook_sets: u32,
    pub hook_calls: u32,
    pub stop: Option<StopReason>,
    pub deadlock: Option<String>,
    pub pending_panic: Vec<u32>, // tasks whose panic ran through the dispatcher and has not been caught yet
    pub panics: Vec<(u32, String)>,
    // ---- threads ----
    pub threads: Vec<ThreadRec>,
    // ---- log ----
    pub events: Vec<Event>,
    pub log_enabled: bool,
    pub probes: [u64; 32],
    pub max_tasks: u32,
}

impl RunState {
    pub fn new(mode: Mode, sched_seed: u64, step_cap: u64, replay: Vec<u16>) -> Self {
        RunState {
            mode,
            rng: Rng::new(sched_seed),
            decisions: 0,
            switches: 0,
            step_cap,
            trace: Vec::new(),
            replay,
            replay_pos: 0,
            replay_misses: 0,
            prio: Vec::new(),
            change_points: Vec::new(),
            streak_task: u32::MAX,
            streak_len: 0,
            last_task: u32::MAX,
            now: 0,
            wake: Vec::new(),
            time_jumps: 0,
            park_token: Vec::new(),
            since_jump: 0,
            time_warps: 0,
            stdout_stalled: false,
            blocked_on_stdout: Vec::new(),
            pool_size: 4,
            pool_busy: 0,
            pool_jobs: 0,
            pool_waiters: Vec::new(),
            cpus: 16,
            hook: None,
            hook_sets: 0,
            hook_calls: 0,
            stop: None,
            deadlock: None,
            pending_panic: Vec::new(),
            panics: Vec::new(),
            threads: Vec::new(),
            events: Vec::new(),
            log_enabled: true,
            probes: [0; 32],
            max_tasks: 0,
        }
    }

    pub fn live_threads(&self) -> usize {
        self.threads.iter().filter(|t| !t.exited).count()
    }

    pub fn log_hash(&self) -> u64 {
        let mut h = Fnv::default();
        for e in &self.events {
            h.u64(e.step);
            h.u64(e.task as u64);
            h.u64(e.kind as u64);
            h.u64(e.a);
            h.u64(e.b);
        }
        h.u64(self.events.len() as u64);
        h.0
    }

    /// hash of the application-visible history only (no step numbers): two runs
    /// with the same value went through the same interleaving of logged events
    pub fn history_hash(&self) -> u64 {
        let mut h = Fnv::default();
        for e in &self.events {
            h.u64(e.task as u64);
            h.u64(e.kind as u64);
            h.u64(e.a);
            h.u64(e.b);
        }
        h.0
    }
}

thread_local! {
    static RUN: RefCell<Option<RunState>> = const { RefCell::new(None) };
}

pub fn install(st: RunState) {
    RUN.with(|r| *r.borrow_mut() = Some(st));
}

pub fn uninstall() -> Option<RunState> {
    RUN.with(|r| r.borrow_mut().take())
}

pub fn in_run() -> bool {
    RUN.with(|r| r.try_borrow().map(|b| b.is_some()).unwrap_or(true))
}

/// Access the run state. Panics if there is none (harness error).
pub fn with<T>(f: impl FnOnce(&mut RunState) -> T) -> T {
    RUN.with(|r| {
        let mut b = r.borrow_mut();
        f(b.as_mut().expect("verif_rt: no simulated process on this OS thread"))
    })
}

pub fn try_with<T>(f: impl FnOnce(&mut RunState) -> T) -> Option<T> {
    RUN.with(|r| match r.try_borrow_mut() {
        Ok(mut b) => b.as_mut().map(f),
        Err(_) => None,
    })
}

pub fn current_task() -> u32 {
    match shuttle::current::get_current_task() {
        Some(t) => usize::from(t) as u32,
        None => u32::MAX,
    }
}

/// Append an event to the history. Never draws from a PRNG, never reads a clock.
pub fn log(kind: Kind, a: u64, b: u64) {
    let task = current_task();
    try_with(|st| {
        if st.log_enabled {
            let step = st.decisions;
            st.events.push(Event { step, task, kind, a, b });
        }
    });
}

pub fn probe(i: usize) {
    try_with(|st| st.probes[i] += 1);
}

pub fn now() -> u64 {
    with(|st| st.now)
}

/// Sleep for `ticks` of virtual time: the scheduler will not run this task
/// before the virtual clock has reached the wake-up time.
pub fn sleep_ticks(ticks: u64) {
    if ticks == 0 {
        shuttle::thread::yield_now();
        return;
    }
    let me = current_task();
    with(|st| {
        let i = me as usize;
        if st.wake.len() <= i {
            st.wake.resize(i + 1, 0);
        }
        st.wake[i] = st.now + ticks;
    });
    log(Kind::Sleep, ticks, 0);
    shuttle::thread::yield_now();
    // the scheduler clears the wake entry when it resumes us
}

/// Number of simulated threads spawned through the shim that have not exited.
pub fn live_threads() -> usize {
    with(|st| st.live_threads())
}

/// Block the calling (main) task until every shim-spawned thread has exited,
/// or the run is stopped. Each poll is one scheduling point.
pub fn wait_threads_exit() {
    loop {
        let (live, stopped) = with(|st| (st.live_threads(), st.stop.is_some()));
        if live == 0 || stopped {
            return;
        }
        shuttle::thread::yield_now();
    }
}

/// Like `wait_threads_exit`, for the threads registered from index `first` on (the ones an
/// earlier part of the scenario left behind are not waited for).
pub fn wait_threads_exit_since(first: usize) {
    loop {
        let (live, stopped) = with(|st| (st.threads.iter().skip(first).filter(|t| !t.exited).count(), st.stop.is_some()));
        if live == 0 || stopped {
            return;
        }
        shuttle::thread::yield_now();
    }
}

pub fn threads_registered() -> usize {
    with(|st| st.threads.len())
}

/// Called by the interposed write(2) of the harness binary for fd 1 on a thread that runs a
/// simulated process. Returns true if the write must be treated as "blocks for ever".
pub fn stdout_write_blocks() -> bool {
    let me = current_task();
    try_with(|st| {
        if st.stdout_stalled {
            if !st.blocked_on_stdout.contains(&me) {
                st.blocked_on_stdout.push(me);
            }
            true
        } else {
            false
        }
    })
    .unwrap_or(false)
}

/// scenario side: stall the simulated process's stdout from now on
pub fn stall_stdout() {
    with(|st| st.stdout_stalled = true);
    log(Kind::Fault, 9, 0);
}
