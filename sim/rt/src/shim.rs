//! `shim::std` shadows the `std` crate name inside the files of text-utils that
//! start threads or synchronise (`#[cfg(text_utils_verif)] use crate::verif_shim::std;`).
//! It is std, except that threads, Mutex, atomics, mpsc channels, `sleep`,
//! `panic::set_hook` and `process::exit` are owned by the simulator.

#[allow(clippy::module_inception)]
pub mod std {
    pub use ::std::*;

    pub mod sync {
        pub use ::std::sync::*;

        // Everything that blocks or synchronises is the engine's model; whatever can time out
        // (Condvar, recv_timeout) is built on it in crate::timed so that timeouts read the
        // virtual clock. (A stopped simulated process is torn down without running
        // destructors - see sched.rs.)
        pub use crate::timed::{Condvar, Mutex, MutexGuard, WaitTimeoutResult};
        pub use ::shuttle::sync::{Barrier, BarrierWaitResult, Once, OnceState, RwLock, RwLockReadGuard, RwLockWriteGuard};

        pub mod mpsc {
            pub use crate::timed::mpsc::*;
        }

        pub mod atomic {
            pub use ::shuttle::sync::atomic::*;
        }
    }

    pub mod time {
        pub use ::std::time::*;

        /// Instant on the virtual clock
        pub use crate::timed::Instant;
    }

    pub mod process {
        pub use ::std::process::*;

        use crate::rt::{self, Kind, StopReason};

        /// Simulated `process::exit`: records the event *ProcessExit(code)*; the
        /// scheduler ends the simulated process at the next decision. Returns so
        /// that it can be called from inside a panic hook without a context
        /// switch there.
        pub fn exit(code: i32) {
            if !rt::in_run() {
                ::std::process::exit(code);
            }
            let me = rt::current_task();
            if rt::with(|st| st.blocked_on_stdout.contains(&me)) {
                // this thread wrote to the stalled standard output before: in reality it is still
                // blocked in that write and never gets here
                return;
            }
            rt::log(Kind::ProcessExit, code as u32 as u64, 0);
            rt::with(|st| {
                if st.stop.is_none() {
                    st.stop = Some(StopReason::Exit(code));
                }
            });
        }
    }

    pub mod panic {
        pub use ::std::panic::*;

        use crate::rt::{self, Kind};

        /// `catch_unwind` of the simulated program: the payload with which the scheduler ends a
        /// simulated process is not a panic of the program and passes through
        pub fn catch_unwind<F: FnOnce() -> R + UnwindSafe, R>(f: F) -> ::std::thread::Result<R> {
            match ::std::panic::catch_unwind(f) {
                Err(p) if p.is::<crate::sched::StopRun>() => ::std::panic::resume_unwind(p),
                r => r,
            }
        }

        /// Simulated process-global hook slot.
        pub fn set_hook(hook: Box<dyn Fn(&PanicHookInfo<'_>) + Sync + Send + 'static>) {
            if !rt::in_run() {
                ::std::panic::set_hook(hook);
                return;
            }
            // the hook slot is a process-global lock in std: other threads may run between two
            // operations on it (never while panicking: no switch inside a hook)
            if !::std::thread::panicking() {
                // a plain scheduling point (not a yield: the caller may well be chosen again)
                ::shuttle::thread::sleep(::std::time::Duration::ZERO);
            }
            rt::log(Kind::HookSet, 0, 0);
            rt::with(|st| {
                st.hook = Some(hook);
                st.hook_sets += 1;
            });
        }

        pub fn take_hook() -> Box<dyn Fn(&PanicHookInfo<'_>) + Sync + Send + 'static> {
            if !rt::in_run() {
                return ::std::panic::take_hook();
            }
            if !::std::thread::panicking() {
                // a plain scheduling point (not a yield: the caller may well be chosen again)
                ::shuttle::thread::sleep(::std::time::Duration::ZERO);
            }
            match rt::with(|st| st.hook.take()) {
                Some(h) => h,
                None => Box::new(|_| {}),
            }
        }
    }

    pub mod thread {
        pub use ::std::thread::*;

        // parking (with virtual-time timeouts) and thread handles are the simulator's, scoped
        // threads the engine's
        pub use crate::timed::{current, park, park_timeout, Thread, ThreadId};
        pub use ::shuttle::thread::{scope, Scope, ScopedJoinHandle};

        use crate::rt::{self, Kind, ThreadRec};
        use ::std::panic::{catch_unwind, resume_unwind, AssertUnwindSafe};
        use ::std::time::Duration;

        /// virtual nanoseconds per scheduler tick
        pub const NS_PER_TICK: u64 = 10_000;

        pub(crate) fn register(name: Option<&str>) -> usize {
            let idx = rt::with(|st| {
                let step = st.decisions;
                st.threads.push(ThreadRec {
                    name: name.unwrap_or("<unnamed>").to_string(),
                    started: false,
                    exited: false,
                    panicked: false,
                    spawn_step: step,
                    exit_step: 0,
                });
                st.threads.len() - 1
            });
            rt::log(Kind::ThreadSpawn, idx as u64, 0);
            idx
        }

        pub(crate) fn body<F, T>(
            idx: usize,
            cell: ::std::sync::Arc<::std::sync::atomic::AtomicU32>,
            f: F,
        ) -> impl FnOnce() -> ::std::thread::Result<T> + Send + 'static
        where
            F: FnOnce() -> T + Send + 'static,
            T: Send + 'static,
        {
            move || {
                cell.store(rt::current_task(), ::std::sync::atomic::Ordering::SeqCst);
                rt::with(|st| st.threads[idx].started = true);
                rt::log(Kind::ThreadStart, idx as u64, 0);
                let me = rt::current_task();
                let r = catch_unwind(AssertUnwindSafe(f));
                match r {
                    Ok(v) => {
                        rt::log(Kind::ThreadExit, idx as u64, 0);
                        rt::with(|st| {
                            st.threads[idx].exited = true;
                            st.threads[idx].exit_step = st.decisions;
                        });
                        Ok(v)
                    }
                    Err(payload) => {
                        // a regular panic went through the dispatcher hook first;
                        // anything else is the engine unwinding a suspended task
                        // at the end of the run and must pass through untouched
                        // the scheduler ending the simulated process unwinds with its own payload and
                        // must pass through; everything else is a panic of the simulated program
                        // (possibly re-raised with resume_unwind, which runs no hook)
                        if payload.is::<crate::sched::StopRun>() {
                            resume_unwind(payload);
                        }
                        rt::try_with(|st| {
                            if let Some(p) = st.pending_panic.iter().position(|t| *t == me) {
                                st.pending_panic.swap_remove(p);
                            }
                        });
                        rt::log(Kind::ThreadExit, idx as u64, 1);
                        rt::with(|st| {
                            st.threads[idx].exited = true;
                            st.threads[idx].panicked = true;
                            st.threads[idx].exit_step = st.decisions;
                        });
                        Err(payload)
                    }
                }
            }
        }

        pub struct JoinHandle<T>(::shuttle::thread::JoinHandle<::std::thread::Result<T>>, Thread);

        impl<T> JoinHandle<T> {
            pub fn join(self) -> ::std::thread::Result<T> {
                match self.0.join() {
                    Ok(r) => r,
                    Err(e) => Err(e),
                }
            }
            pub fn thread(&self) -> &Thread {
                &self.1
            }
        }

        impl<T> ::std::fmt::Debug for JoinHandle<T> {
            fn fmt(&self, f: &mut ::std::fmt::Formatter<'_>) -> ::std::fmt::Result {
                f.write_str("JoinHandle { .. }")
            }
        }

        pub fn spawn<F, T>(f: F) -> JoinHandle<T>
        where
            F: FnOnce() -> T + Send + 'static,
            T: Send + 'static,
        {
            let idx = register(None);
            let (t, cell) = Thread::not_started(None);
            let h = ::shuttle::thread::spawn(body(idx, cell, f));
            JoinHandle(h, t)
        }

        #[derive(Debug, Default)]
        pub struct Builder {
            name: Option<String>,
            stack_size: Option<usize>,
        }

        impl Builder {
            pub fn new() -> Self {
                Builder { name: None, stack_size: None }
            }
            pub fn name(mut self, name: String) -> Self {
                self.name = Some(name);
                self
            }
            pub fn stack_size(mut self, size: usize) -> Self {
                self.stack_size = Some(size);
                self
            }
            pub fn spawn<F, T>(self, f: F) -> ::std::io::Result<JoinHandle<T>>
            where
                F: FnOnce() -> T + Send + 'static,
                T: Send + 'static,
            {
                let idx = register(self.name.as_deref());
                let mut b = ::shuttle::thread::Builder::new();
                let name = self.name.clone();
                if let Some(n) = self.name {
                    b = b.name(n);
                }
                let (t, cell) = Thread::not_started(name);
                b.spawn(body(idx, cell, f)).map(|h| JoinHandle(h, t))
            }
        }

        /// the environment of the simulated process decides (CPU affinity, cgroup quota)
        pub fn available_parallelism() -> ::std::io::Result<::std::num::NonZeroUsize> {
            if !rt::in_run() {
                return ::std::thread::available_parallelism();
            }
            Ok(::std::num::NonZeroUsize::new(rt::with(|st| st.cpus as usize).max(1)).unwrap())
        }

        pub fn sleep(dur: Duration) {
            if !rt::in_run() {
                ::std::thread::sleep(dur);
                return;
            }
            let ns = dur.as_nanos() as u64;
            rt::sleep_ticks(ns.div_ceil(NS_PER_TICK));
        }

        pub fn yield_now() {
            if !rt::in_run() {
                ::std::thread::yield_now();
                return;
            }
            ::shuttle::thread::yield_now();
        }
    }
}

/// `shim::rayon` shadows the `rayon` crate name in the same files. It is rayon, except that
/// `spawn` runs the job on a simulated fixed-size pool: a job is a simulated thread that may
/// only start once one of the `pool_size` pool threads of the simulated process is free, and it
/// keeps that pool thread until it returns (rayon jobs are not preempted: a job that blocks or
/// spins occupies its pool thread). Which queued job starts next is the scheduler's choice.
/// An uncaught panic of a job ends the process (rayon aborts when no panic handler is set).
/// Everything else of rayon (par_iter, join, scope) is the real thing on real threads: fine for
/// pure computations, not for closures that use the simulated primitives.
pub mod rayon {
    pub use ::rayon::*;

    use crate::rt::{self, Kind};

    pub fn spawn<F>(f: F)
    where
        F: FnOnce() + Send + 'static,
    {
        if !rt::in_run() {
            ::rayon::spawn(f);
            return;
        }
        let no = rt::with(|st| {
            st.pool_jobs += 1;
            st.pool_jobs
        });
        let name = format!("rayon pool job {no}");
        let idx = crate::shim::std::thread::register(Some(&name));
        let (_t, cell) = crate::timed::Thread::not_started(Some(name.clone()));
        let job = move || {
            // wait for a free pool thread
            crate::timed::wait_until(crate::timed::FOREVER, || {
                let me = rt::current_task();
                rt::with(|st| {
                    if st.pool_busy < st.pool_size {
                        st.pool_busy += 1;
                        true
                    } else {
                        if !st.pool_waiters.contains(&me) {
                            st.pool_waiters.push(me);
                        }
                        false
                    }
                })
            });
            rt::log(Kind::Note, 40, no);
            let r = ::std::panic::catch_unwind(::std::panic::AssertUnwindSafe(f));
            if let Err(p) = r {
                if p.is::<crate::sched::StopRun>() {
                    ::std::panic::resume_unwind(p);
                }
                // the panic hook of the program ran already; rayon would now abort the process
                crate::shim::std::process::exit(134);
                ::std::panic::resume_unwind(p);
            }
            let waiters = rt::with(|st| {
                st.pool_busy -= 1;
                ::std::mem::take(&mut st.pool_waiters)
            });
            for w in waiters {
                crate::timed::wake(w);
            }
        };
        let mut b = ::shuttle::thread::Builder::new();
        b = b.name(name);
        let _ = b.spawn(crate::shim::std::thread::body(idx, cell, job));
    }

    pub fn current_num_threads() -> usize {
        if !rt::in_run() {
            return ::rayon::current_num_threads();
        }
        rt::with(|st| st.pool_size as usize)
    }
}

