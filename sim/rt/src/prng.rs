//! Small self-contained PRNGs. Everything random in the simulator is derived
//! from one integer through these, so that one seed is one execution.

#[derive(Clone, Debug)]
pub struct SplitMix64(pub u64);

impl SplitMix64 {
    pub fn new(seed: u64) -> Self {
        SplitMix64(seed)
    }
    #[inline]
    pub fn next_u64(&mut self) -> u64 {
        self.0 = self.0.wrapping_add(0x9E37_79B9_7F4A_7C15);
        let mut z = self.0;
        z = (z ^ (z >> 30)).wrapping_mul(0xBF58_476D_1CE4_E5B9);
        z = (z ^ (z >> 27)).wrapping_mul(0x94D0_49BB_1331_11EB);
        z ^ (z >> 31)
    }
}

/// Derive an independent stream seed from (seed, label).
pub fn derive(seed: u64, label: u64) -> u64 {
    let mut s = SplitMix64::new(seed ^ label.wrapping_mul(0xD6E8_FEB8_6659_FD93));
    s.next_u64();
    s.next_u64()
}

#[derive(Clone, Debug)]
pub struct Rng {
    s: [u64; 4],
}

impl Rng {
    pub fn new(seed: u64) -> Self {
        let mut sm = SplitMix64::new(seed);
        Rng {
            s: [sm.next_u64(), sm.next_u64(), sm.next_u64(), sm.next_u64()],
        }
    }
    #[inline]
    pub fn next_u64(&mut self) -> u64 {
        let result = self.s[1].wrapping_mul(5).rotate_left(7).wrapping_mul(9);
        let t = self.s[1] << 17;
        self.s[2] ^= self.s[0];
        self.s[3] ^= self.s[1];
        self.s[1] ^= self.s[2];
        self.s[0] ^= self.s[3];
        self.s[2] ^= t;
        self.s[3] = self.s[3].rotate_left(45);
        result
    }
    /// uniform in 0..n (n > 0)
    #[inline]
    pub fn below(&mut self, n: u64) -> u64 {
        debug_assert!(n > 0);
        // multiply-shift; bias is negligible for the small n used here
        ((self.next_u64() as u128 * n as u128) >> 64) as u64
    }
    /// uniform in lo..=hi
    #[inline]
    pub fn range(&mut self, lo: u64, hi: u64) -> u64 {
        lo + self.below(hi - lo + 1)
    }
    #[inline]
    pub fn usize(&mut self, lo: usize, hi: usize) -> usize {
        self.range(lo as u64, hi as u64) as usize
    }
    #[inline]
    pub fn f64(&mut self) -> f64 {
        (self.next_u64() >> 11) as f64 / (1u64 << 53) as f64
    }
    #[inline]
    pub fn chance(&mut self, p: f64) -> bool {
        self.f64() < p
    }
    pub fn pick<'a, T>(&mut self, xs: &'a [T]) -> &'a T {
        &xs[self.below(xs.len() as u64) as usize]
    }
    pub fn shuffle<T>(&mut self, xs: &mut [T]) {
        for i in (1..xs.len()).rev() {
            let j = self.below(i as u64 + 1) as usize;
            xs.swap(i, j);
        }
    }
}

/// 64-bit FNV-1a style running hash used for event-log fingerprints.
#[derive(Clone, Copy, Debug)]
pub struct Fnv(pub u64);

impl Default for Fnv {
    fn default() -> Self {
        Fnv(0xcbf2_9ce4_8422_2325)
    }
}

impl Fnv {
    #[inline]
    pub fn u64(&mut self, v: u64) {
        let mut h = self.0;
        for i in 0..8 {
            h ^= (v >> (i * 8)) & 0xff;
            h = h.wrapping_mul(0x0000_0100_0000_01B3);
        }
        self.0 = h;
    }
    pub fn bytes(&mut self, b: &[u8]) {
        let mut h = self.0;
        for x in b {
            h ^= *x as u64;
            h = h.wrapping_mul(0x0000_0100_0000_01B3);
        }
        self.0 = h;
    }
    pub fn str(&mut self, s: &str) {
        self.bytes(s.as_bytes());
        self.u64(s.len() as u64);
    }
}
