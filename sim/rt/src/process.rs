//! One simulated process = one shuttle execution on a fresh OS thread with its
//! own entropy stream, scheduler stream and run state.

use crate::prng::SplitMix64;
use crate::rt::{self, Event, Kind, Mode, RunState, StopReason, ThreadRec};
use crate::sched::SimScheduler;
use std::cell::RefCell;
use std::panic::{catch_unwind, AssertUnwindSafe, PanicHookInfo};
use std::sync::{Arc, Mutex, Once};

// ---------------------------------------------------------------- entropy

thread_local! {
    static ENTROPY: RefCell<Option<(SplitMix64, u64)>> = const { RefCell::new(None) };
}

/// Called by the interposed `getrandom` symbol of the harness binary. Returns
/// false when the calling OS thread has no simulated entropy (then the real
/// system call must be used).
pub fn fill_entropy(buf: &mut [u8]) -> bool {
    ENTROPY.with(|e| {
        let mut e = e.borrow_mut();
        match e.as_mut() {
            None => false,
            Some((sm, calls)) => {
                *calls += 1;
                for chunk in buf.chunks_mut(8) {
                    let v = sm.next_u64().to_le_bytes();
                    chunk.copy_from_slice(&v[..chunk.len()]);
                }
                true
            }
        }
    })
}

fn entropy_calls() -> u64 {
    ENTROPY.with(|e| e.borrow().as_ref().map(|x| x.1).unwrap_or(0))
}

// ---------------------------------------------------------------- panic dispatch

static INSTALL: Once = Once::new();

fn payload_msg(info: &PanicHookInfo<'_>) -> String {
    let p = info.payload();
    let m = if let Some(s) = p.downcast_ref::<&'static str>() {
        (*s).to_string()
    } else if let Some(s) = p.downcast_ref::<String>() {
        s.clone()
    } else {
        "<non-string panic payload>".to_string()
    };
    match info.location() {
        Some(l) => format!("{m} @ {}:{}", l.file(), l.line()),
        None => m,
    }
}

/// Install the process-wide dispatcher hook. Must run before the first shuttle
/// execution: shuttle installs its own hook once and chains whatever hook is
/// present at that time.
pub fn install_dispatcher() {
    INSTALL.call_once(|| {
        let default = std::panic::take_hook();
        std::panic::set_hook(Box::new(move |info| {
            if info.payload().is::<crate::sched::StopRun>() {
                // the scheduler ending a simulated process: not a panic of the simulated program
                return;
            }
            if !rt::in_run() {
                default(info);
                return;
            }
            let msg = payload_msg(info);
            if msg.starts_with("deadlock!") {
                // raised by the engine from outside any task: no thread of the
                // simulated process panicked, its hook is not involved
                rt::try_with(|st| st.deadlock = Some(msg));
                return;
            }
            if msg.starts_with("exceeded max_steps") || msg.starts_with("no task was scheduled") {
                return;
            }
            let task = rt::current_task();
            rt::log(Kind::ThreadPanic, 0, 0);
            let hook = rt::try_with(|st| {
                st.panics.push((task, msg));
                st.pending_panic.push(task);
                st.hook.take()
            })
            .flatten();
            if let Some(h) = hook {
                rt::log(Kind::HookInvoked, 0, 0);
                rt::try_with(|st| st.hook_calls += 1);
                // the repository's own closure runs here, with the real info
                h(info);
                rt::try_with(|st| {
                    if st.hook.is_none() {
                        st.hook = Some(h);
                    }
                });
            }
        }));
    });
}

// ---------------------------------------------------------------- process

#[derive(Clone, Debug)]
pub struct ProcSpec {
    pub mode: Mode,
    pub sched_seed: u64,
    pub entropy_seed: u64,
    pub step_cap: u64,
    /// trace to follow in `Mode::Replay`
    pub replay: Vec<u16>,
    pub stack_size: usize,
    pub log_events: bool,
    /// threads of the simulated shared pool (see shim::rayon)
    pub pool_size: u32,
    /// CPUs the simulated process may use (`available_parallelism`)
    pub cpus: u32,
}

impl ProcSpec {
    pub fn new(mode: Mode, sched_seed: u64, entropy_seed: u64) -> Self {
        ProcSpec {
            mode,
            sched_seed,
            entropy_seed,
            step_cap: 200_000,
            replay: Vec::new(),
            stack_size: 512 * 1024,
            log_events: true,
            pool_size: 4,
            cpus: 16,
        }
    }
    pub fn replaying(&self, trace: Vec<u16>, strict: bool) -> Self {
        let mut s = self.clone();
        s.mode = Mode::Replay { strict };
        s.replay = trace;
        s
    }
}

#[derive(Clone, Debug, PartialEq, Eq)]
pub enum Status {
    /// every task ran to completion
    Completed,
    /// the simulated process called exit(code)
    Exit(i32),
    /// no task runnable while some task is unfinished (consumer or worker blocked for ever)
    Wedged(String),
    /// step cap reached while tasks were still running (spinning / never-ending thread)
    Livelock,
    /// a thread panicked holding a lock and the process did not exit
    PanicNoExit,
    /// the main task of the scenario panicked
    MainPanic(String),
    ReplayDiverged,
}

impl Status {
    pub fn class(&self) -> &'static str {
        match self {
            Status::Completed => "completed",
            Status::Exit(_) => "exit",
            Status::Wedged(_) => "WEDGED",
            Status::Livelock => "LIVELOCK",
            Status::PanicNoExit => "PANIC_NO_EXIT",
            Status::MainPanic(_) => "MAIN_PANIC",
            Status::ReplayDiverged => "REPLAY_DIVERGED",
        }
    }
}

#[derive(Clone, Debug)]
pub struct ProcResult {
    pub status: Status,
    pub trace: Vec<u16>,
    pub events: Vec<Event>,
    pub threads: Vec<ThreadRec>,
    pub panics: Vec<(u32, String)>,
    pub decisions: u64,
    pub switches: u64,
    pub now: u64,
    pub time_jumps: u64,
    pub time_warps: u64,
    pub max_tasks: u32,
    pub hook_sets: u32,
    pub hook_calls: u32,
    pub replay_misses: u64,
    pub log_hash: u64,
    pub history_hash: u64,
    pub entropy_calls: u64,
    pub probes: [u64; 32],
}

impl ProcResult {
    pub fn live_threads(&self) -> Vec<&ThreadRec> {
        self.threads.iter().filter(|t| !t.exited).collect()
    }
}

/// Run `main` as task 0 of a fresh simulated process and return what happened.
pub fn run_process<F>(spec: &ProcSpec, main: F) -> ProcResult
where
    F: FnOnce() + Send + 'static,
{
    install_dispatcher();
    let spec = spec.clone();
    let handle = std::thread::Builder::new()
        .name("sim-process".into())
        .stack_size(4 * 1024 * 1024)
        .spawn(move || run_on_this_thread(&spec, main))
        .expect("spawn simulated process thread");
    handle.join().expect("simulated process thread must not die")
}

fn run_on_this_thread<F>(spec: &ProcSpec, main: F) -> ProcResult
where
    F: FnOnce() + Send + 'static,
{
    ENTROPY.with(|e| *e.borrow_mut() = Some((SplitMix64::new(spec.entropy_seed), 0)));
    let mut st = RunState::new(spec.mode.clone(), spec.sched_seed, spec.step_cap, spec.replay.clone());
    st.pool_size = spec.pool_size.max(1);
    st.cpus = spec.cpus.max(1);
    st.log_enabled = spec.log_events;
    rt::install(st);

    let mut cfg = shuttle::Config::new();
    cfg.stack_size = spec.stack_size;
    cfg.failure_persistence = shuttle::FailurePersistence::None;
    cfg.max_steps = shuttle::MaxSteps::None;
    cfg.silence_warnings = true;

    let slot: Arc<Mutex<Option<F>>> = Arc::new(Mutex::new(Some(main)));
    let main_panic: Arc<Mutex<Option<String>>> = Arc::new(Mutex::new(None));
    let mp = main_panic.clone();
    let runner = shuttle::Runner::new(SimScheduler::new(), cfg);
    let outcome = catch_unwind(AssertUnwindSafe(move || {
        runner.run(move || {
            let f = slot.lock().unwrap().take().expect("main runs once");
            let r = catch_unwind(AssertUnwindSafe(f));
            if let Err(p) = r {
                let me = rt::current_task();
                if p.is::<crate::sched::StopRun>() {
                    std::panic::resume_unwind(p);
                }
                rt::try_with(|st| {
                    if let Some(i) = st.pending_panic.iter().position(|t| *t == me) {
                        st.pending_panic.swap_remove(i);
                    }
                });
                let msg = rt::with(|st| {
                    st.panics
                        .iter()
                        .rev()
                        .find(|(t, _)| *t == me)
                        .map(|(_, m)| m.clone())
                        .unwrap_or_default()
                });
                rt::log(Kind::MainPanic, 0, 0);
                *mp.lock().unwrap() = Some(msg);
                // a process whose main thread died is gone
                rt::with(|st| {
                    if st.stop.is_none() {
                        st.stop = Some(StopReason::Exit(101));
                    }
                });
            } else {
                // returning from main ends a process; threads that are still running are gone with it
                rt::with(|st| {
                    if st.stop.is_none() {
                        st.stop = Some(StopReason::MainReturned);
                    }
                });
            }
        });
    }));

    let st = rt::uninstall().expect("run state present");
    let calls = entropy_calls();
    ENTROPY.with(|e| *e.borrow_mut() = None);

    let main_panic = main_panic.lock().unwrap().take();
    let status = if let Some(m) = main_panic {
        Status::MainPanic(m)
    } else if let Some(StopReason::Exit(c)) = &st.stop {
        // the process is gone; whatever the engine noticed afterwards (e.g. that
        // the consumer would have stayed blocked) is not observable
        Status::Exit(*c)
    } else if let Some(StopReason::MainReturned) = &st.stop {
        Status::Completed
    } else if let Some(d) = &st.deadlock {
        Status::Wedged(d.clone())
    } else {
        match (&st.stop, &outcome) {
            (Some(StopReason::Exit(c)), _) => Status::Exit(*c),
            (Some(StopReason::StepCap), _) => Status::Livelock,
            (Some(StopReason::PanicUnwindAtSyncPoint), _) => Status::PanicNoExit,
            (Some(StopReason::ReplayDiverged), _) => Status::ReplayDiverged,
            (Some(StopReason::MainReturned), _) => Status::Completed,
            (Some(StopReason::Deadlock), _) => Status::Wedged("every remaining task waits for ever (condvar / park / recv without a wake-up)".into()),
            (None, Ok(())) => Status::Completed,
            (None, Err(_)) => Status::MainPanic("engine failure (unclassified panic out of the run)".into()),
        }
    };
    ProcResult {
        status,
        log_hash: st.log_hash(),
        history_hash: st.history_hash(),
        trace: st.trace,
        events: st.events,
        threads: st.threads,
        panics: st.panics,
        decisions: st.decisions,
        switches: st.switches,
        now: st.now,
        time_jumps: st.time_jumps,
        time_warps: st.time_warps,
        max_tasks: st.max_tasks,
        hook_sets: st.hook_sets,
        hook_calls: st.hook_calls,
        replay_misses: st.replay_misses,
        entropy_calls: calls,
        probes: st.probes,
    }
}

// ---------------------------------------------------------------- stderr

/// The engine prints a few lines to stderr on every panic of a simulated
/// thread ("Task failed, serializing schedule"); with thousands of injected
/// panics that is noise. Point fd 2 at /dev/null and return a duplicate of the
/// original stderr for the harness's own diagnostics.
pub fn silence_stderr() -> i32 {
    extern "C" {
        fn dup(fd: i32) -> i32;
        fn dup2(old: i32, new: i32) -> i32;
        fn open(path: *const u8, flags: i32, ...) -> i32;
    }
    unsafe {
        let saved = dup(2);
        let null = open(b"/dev/null\0".as_ptr(), 1 /* O_WRONLY */);
        if null >= 0 {
            dup2(null, 2);
        }
        saved
    }
}

static SAVED_STDOUT: std::sync::atomic::AtomicI32 = std::sync::atomic::AtomicI32::new(-1);

/// Simulated code may print (the repository's train_bpe hook uses println!).
/// Point fd 1 at /dev/null and keep the real stdout for `emit`.
pub fn silence_stdout() {
    extern "C" {
        fn dup(fd: i32) -> i32;
        fn dup2(old: i32, new: i32) -> i32;
        fn open(path: *const u8, flags: i32, ...) -> i32;
    }
    use std::io::Write;
    let _ = std::io::stdout().flush();
    unsafe {
        let saved = dup(1);
        let null = open(b"/dev/null\0".as_ptr(), 1);
        if saved >= 0 && null >= 0 {
            dup2(null, 1);
            SAVED_STDOUT.store(saved, std::sync::atomic::Ordering::SeqCst);
        }
    }
}

/// Print one line of harness output to the real stdout.
pub fn emit(line: &str) {
    extern "C" {
        fn write(fd: i32, buf: *const u8, n: usize) -> isize;
    }
    let fd = SAVED_STDOUT.load(std::sync::atomic::Ordering::SeqCst);
    if fd < 0 {
        println!("{line}");
        return;
    }
    let mut data = line.as_bytes().to_vec();
    data.push(b'\n');
    let mut off = 0;
    while off < data.len() {
        let n = unsafe { write(fd, data[off..].as_ptr(), data.len() - off) };
        if n <= 0 {
            break;
        }
        off += n as usize;
    }
}
