//! C08 — the training item stream is reproducible (worker count, buffer size,
//! schedule, process), shardable (ranks, skip/limit) and resumable
//! (crash + fast_forward). Metamorphic: streams of the implementation are
//! compared with each other by unique item id.

use crate::c20::ScratchDir;
use crate::common::*;
use serde::{Deserialize, Serialize};
use std::collections::{BTreeMap, BTreeSet, HashMap};
use std::sync::{Arc, Mutex};
use text_utils::data::loading::GenerationStrategy;
use text_utils::data::postprocessing::PostprocessingFnConfig;
use text_utils::data::preprocessing::{Part, PreprocessingFnConfig, SpellingCorruptionMode};
use text_utils::data::task::TrainTaskConfig;
use text_utils::data::verif::{TrainLoaderArgs, TrainLoaderDriver};
use text_utils::data::{PostprocessingConfig, PreprocessingConfig, TrainPipelineConfig};
use text_utils::tokenization::{
    ByteGroups, ByteTokenizerConfig, CharTokenizerConfig, GroupAggregation, SpecialConfig, TokenizeConfig, TokenizerConfig,
};
use text_utils::unicode::Normalization;
use verif_rt::prng::{derive, Rng};
use verif_rt::rt::{self, Kind};
use verif_rt::{run_process, ProcSpec, Status};

// ------------------------------------------------------------------ serialisable configuration mirror

#[derive(Serialize, Deserialize, Clone, Debug, PartialEq)]
pub enum Pre {
    None,
    Clean,
    Normalize,
    WsCorrupt(f64, f64),
    NoWs,
    FullWs,
    CharSub(usize),
    ByteSub(usize),
    /// (prob, char_edit_prob, temperature, allow_full_delete, with characters file)
    Spell(f64, f64, f64, bool, bool),
    Prefix(String),
    Suffix(String),
    Switch(Vec<Pre>, Vec<f64>),
    Chain(Vec<Pre>),
}

#[derive(Serialize, Deserialize, Clone, Debug, PartialEq)]
pub enum Tok {
    /// (use_graphemes, code point groups, bos/eos prefix+suffix)
    Byte(bool, bool, bool),
    Char(bool, bool),
}

#[derive(Serialize, Deserialize, Clone, Debug, PartialEq)]
pub enum Task {
    WsCorr(Tok),
    Gen(bool, Tok, Option<String>),
    CondGen(Tok, Tok),
}

#[derive(Serialize, Deserialize, Clone, Debug, PartialEq)]
pub enum Post {
    None,
    Clip,
    /// (prob, min tokens, num_tokens_prob)
    Mask(f64, usize, f64),
    Chain(Vec<Post>),
    Switch(Vec<Post>, Vec<f64>),
}

#[derive(Serialize, Deserialize, Clone, Debug, PartialEq)]
pub enum Variation {
    /// same configuration, other (num_threads, buffer_size), other schedule, other process
    Same { t: u8, b: usize },
    /// all ranks of a world; (num_threads, buffer_size) per rank
    World { ranks: Vec<(u8, usize)> },
    /// skip=k / limit=k split of the base stream
    Split { k: usize, tv: (u8, usize), tt: (u8, usize) },
    /// consume until at least m items were delivered, drop, resume with fast_forward;
    /// ff = None: the number of delivered items; ranks: world of the crashed/resumed job
    Crash { m: usize, ff: Option<usize>, ranks: Vec<(u8, usize)> },
    /// what a training script does every epoch: `iter(loader)` again on the same loader after m
    /// delivered items (the old iterator is abandoned, its threads are still winding down while
    /// the new ones start); the new stream must be the stream of a fresh loader
    Reiterate { m: usize, t: u8, b: usize },
    /// two loaders in one process (training + validation): a second loader over the first k
    /// lines (its own threads and buffer) is created first and consumed alternately with the
    /// observed one, whose stream must still be the stream of a loader that lives alone
    Coexist { k: usize, t: u8, b: usize, tc: u8, bc: usize },
}

#[derive(Serialize, Deserialize, Clone, Debug)]
pub struct C08 {
    pub run_seed: u64,
    pub mode: SMode,
    /// raw jsonl file contents
    pub files: Vec<String>,
    /// spelling-corruption characters file (3-gram dictionary) contents
    pub chars_file: String,
    pub pre: Vec<Pre>, // len 1 = global, len = files.len() = per source
    pub task: Task,
    pub post: Post,
    pub strategy: u8, // 0 sequential, 1 interleaved, 2 weighted
    pub t0: u8,
    pub b0: usize,
    pub batch_limit: usize,
    pub padded_item_size: bool,
    pub max_length: usize,
    pub shuffle: bool,
    pub prefetch: usize,
    pub sort: bool,
    pub seed: Option<u64>,
    pub epoch: usize,
    pub skip: usize,
    pub limit: Option<usize>,
    pub variations: Vec<Variation>,
    /// every instance except the reference ones follows the call pattern of the Python trainer:
    /// iter(loader) once (to read min_items), then set_epoch / set_fast_forward, then iter(loader) again
    #[serde(default)]
    pub trainer_pattern: bool,
    /// every instance except the reference ones stops fetching for `ticks` of virtual time before
    /// it takes batch number `.0` (a validation run, a checkpoint): seconds, not milliseconds
    #[serde(default)]
    pub consumer_pause: Option<(u8, u32)>,
    /// every instance except the reference ones asks for another batch after the end of the epoch
    /// (lock-step loops of ranks with uneven shards, `next(it, None)`): the stream stays ended
    #[serde(default)]
    pub poll_after_end: bool,
    /// every instance except the reference ones calls set_fast_forward before set_epoch (the two
    /// setters are independent; the trainer happens to call them the other way round)
    #[serde(default)]
    pub setters_swapped: bool,
    /// every instance except the reference ones calls iter(loader) twice in a row after the setters
    /// (`for b in iter(loader)` does: `__iter__` returns the loader itself and the for statement calls
    /// it again); the second call must build the same stream as the first
    #[serde(default)]
    pub iter_twice: bool,
}

fn tok_cfg(t: &Tok) -> TokenizerConfig {
    let special = |bos_eos: bool| {
        let mut s = SpecialConfig::default();
        if bos_eos {
            s.prefix = vec!["<bos>".to_string()];
            s.suffix = vec!["<eos>".to_string()];
        }
        s
    };
    match t {
        Tok::Byte(g, cp, be) => TokenizerConfig {
            tokenize: TokenizeConfig::Byte(ByteTokenizerConfig {
                use_graphemes: *g,
                pad_to_multiple_of: None,
                groups: if *cp { ByteGroups::CodePoints } else { ByteGroups::Bytes },
                aggregation: GroupAggregation::Mean,
            }),
            special: special(*be),
        },
        Tok::Char(g, be) => TokenizerConfig {
            tokenize: TokenizeConfig::Character(CharTokenizerConfig { use_graphemes: *g, unk_token: "<unk>".to_string() }),
            special: special(*be),
        },
    }
}

fn pre_cfg(p: &Pre, chars_path: &str) -> PreprocessingFnConfig {
    use PreprocessingFnConfig as C;
    match p {
        Pre::None => C::None,
        Pre::Clean => C::Clean(Part::Input, true),
        Pre::Normalize => C::Normalize(Part::Input, Normalization::NFKC, true),
        Pre::WsCorrupt(iw, dw) => C::WhitespaceCorruption(Part::Input, *iw, *dw, true),
        Pre::NoWs => C::NoWhitespaces(Part::Input, true),
        Pre::FullWs => C::FullWhitespaces(Part::Input, true),
        Pre::CharSub(n) => C::CharSubstring(*n, true),
        Pre::ByteSub(n) => C::ByteSubstring(*n, true),
        Pre::Spell(p, cp, temp, fd, with_file) => C::SpellingCorruption(
            Part::Input,
            *p,
            *fd,
            SpellingCorruptionMode::Artificial(*cp, *temp, if *with_file { Some(chars_path.into()) } else { None }),
        ),
        Pre::Prefix(s) => C::Prefix(Part::Input, s.clone()),
        Pre::Suffix(s) => C::Suffix(Part::Input, s.clone()),
        Pre::Switch(v, pr) => C::Switch(v.iter().map(|x| pre_cfg(x, chars_path)).collect(), pr.clone()),
        Pre::Chain(v) => C::Chain(v.iter().map(|x| pre_cfg(x, chars_path)).collect()),
    }
}

fn post_cfg(p: &Post, tok: &Tok) -> PostprocessingFnConfig {
    use PostprocessingFnConfig as C;
    match p {
        Post::None => C::None,
        Post::Clip => C::ClipLength,
        Post::Mask(pr, min, np) => C::TokenMasking(tok_cfg(tok), *pr, *min, *np, "<unk>".to_string()),
        Post::Chain(v) => C::Chain(v.iter().map(|x| post_cfg(x, tok)).collect()),
        Post::Switch(v, pr) => C::Switch(v.iter().map(|x| post_cfg(x, tok)).collect(), pr.clone()),
    }
}

impl C08 {
    fn input_tok(&self) -> &Tok {
        match &self.task {
            Task::WsCorr(t) | Task::Gen(_, t, _) | Task::CondGen(t, _) => t,
        }
    }

    fn pipeline(&self, chars_path: &str) -> TrainPipelineConfig {
        let preprocessing = if self.pre.len() == 1 {
            PreprocessingConfig::Global(pre_cfg(&self.pre[0], chars_path))
        } else {
            PreprocessingConfig::PerSource(self.pre.iter().map(|p| pre_cfg(p, chars_path)).collect())
        };
        let task = match &self.task {
            Task::WsCorr(t) => TrainTaskConfig::WhitespaceCorrection(true, tok_cfg(t)),
            Task::Gen(mask, t, sep) => TrainTaskConfig::Generation(*mask, tok_cfg(t), false, sep.clone()),
            Task::CondGen(a, b) => TrainTaskConfig::ConditionalGeneration(tok_cfg(a), false, tok_cfg(b), false),
        };
        TrainPipelineConfig {
            preprocessing,
            task,
            postprocessing: PostprocessingConfig::Global(post_cfg(&self.post, self.input_tok())),
        }
    }
}

/// one loader instance = one simulated process
#[derive(Clone, Debug)]
struct Inst {
    label: String,
    t: u8,
    b: usize,
    shuffle: bool,
    sort: bool,
    skip: usize,
    limit: Option<usize>,
    distributed: Option<(usize, usize)>,
    ff: usize,
    /// stop after at least this many items were delivered and drop the loader (crash)
    crash_after: Option<usize>,
    /// call iter() again after at least this many delivered items and report only the second stream
    reiterate_after: Option<usize>,
    /// a companion loader (limit, num_threads, buffer_size) living in the same process
    companion: Option<(usize, u8, usize)>,
}

#[derive(Clone, Debug)]
struct InstOut {
    batches: Vec<Vec<String>>,
    err: Option<String>,
    status: Status,
    live_after: Vec<String>,
    panics: Vec<(u32, String)>,
}

impl InstOut {
    fn items(&self) -> Vec<&String> {
        self.batches.iter().flatten().collect()
    }
}

fn item_id(s: &str) -> Option<u64> {
    // Debug output: TrainItem { data: TrainData { input: "...", target: "..." }, input: ... }
    let key = "target: \"";
    let p = s.find(key)? + key.len();
    let rest = &s[p..];
    let end = rest.find('"')?;
    let target = &rest[..end];
    let b = target.as_bytes();
    let mut id: Option<u64> = None;
    let mut i = 0;
    while i < b.len() {
        if b[i] == b'x' {
            let mut j = i + 1;
            let mut v: u64 = 0;
            let mut nd = 0;
            while j < b.len() && b[j].is_ascii_digit() {
                v = v * 10 + (b[j] - b'0') as u64;
                j += 1;
                nd += 1;
            }
            if nd > 0 && j < b.len() && b[j] == b'y' {
                match id {
                    None => id = Some(v),
                    Some(o) if o == v => {}
                    Some(_) => return None, // two different ids in one item: not attributable
                }
                i = j + 1;
                continue;
            }
        }
        i += 1;
    }
    id
}

// ------------------------------------------------------------------ generation

fn gen_text(rng: &mut Rng, id: u64) -> String {
    let m = rng.usize(3, 6);
    let mut ws = vec![];
    for _ in 0..m {
        let pre = *rng.pick(&["", "", "a", "ab", "ba", "c"]);
        let suf = *rng.pick(&["", "", "a", "b", "ab"]);
        ws.push(format!("{pre}x{id}y{suf}"));
    }
    ws.join(" ")
}

fn gen_chars_file(rng: &mut Rng) -> String {
    // 3-gram dictionary "prev cur next\tfreq" with many frequency ties
    let ctx = ["<bow>", "a", "b", "c", "x", "y", "1", "2", "3"];
    let ctx_next = ["<eow>", "a", "b", "c", "x", "y", "1", "2", "3"];
    let curs = ["p", "q", "r", "s", "t"];
    let mut lines = vec![];
    let tie_heavy = rng.chance(0.7);
    for p in ctx {
        for n in ctx_next {
            let k = rng.usize(1, 4);
            let mut cs: Vec<&str> = curs.to_vec();
            rng.shuffle(&mut cs);
            for c in cs.into_iter().take(k) {
                let f = if tie_heavy { rng.range(1, 2) } else { rng.range(1, 50) };
                lines.push(format!("{p} {c} {n}\t{f}"));
            }
        }
    }
    rng.shuffle(&mut lines);
    lines.join("\n") + "\n"
}

fn gen_pre(rng: &mut Rng, ws_only: bool, depth: u32) -> Pre {
    let pick = rng.below(if depth == 0 { 14 } else { 11 });
    match pick {
        0 => Pre::None,
        1 => Pre::Clean,
        2 | 3 => Pre::WsCorrupt(*rng.pick(&[0.0, 0.2, 0.5, 1.0]), *rng.pick(&[0.1, 0.3, 0.8, 1.0])),
        4 => Pre::NoWs,
        5 => Pre::FullWs,
        6 => Pre::CharSub(rng.usize(24, 60)),
        7 => Pre::ByteSub(rng.usize(24, 60)),
        8 | 9 | 10 => {
            if ws_only {
                Pre::WsCorrupt(0.3, 0.3)
            } else {
                match rng.below(4) {
                    0 => Pre::Normalize,
                    1 => Pre::Prefix("p: ".to_string()),
                    _ => Pre::Spell(
                        *rng.pick(&[0.3, 0.6, 1.0]),
                        *rng.pick(&[0.1, 0.3]),
                        *rng.pick(&[1.0, 2.0]),
                        rng.chance(0.5),
                        rng.chance(0.85),
                    ),
                }
            }
        }
        11 | 12 => {
            let n = rng.usize(2, 3);
            let v: Vec<Pre> = (0..n).map(|_| gen_pre(rng, ws_only, depth + 1)).collect();
            let probs = if n == 2 { vec![0.5, 0.5] } else { vec![0.2, 0.3, 0.5] };
            Pre::Switch(v, probs)
        }
        _ => {
            let n = rng.usize(2, 3);
            let mut v: Vec<Pre> = (0..n).map(|_| gen_pre(rng, ws_only, depth + 1)).collect();
            // a substring step after a spelling step would reject every item; keep substrings first
            v.sort_by_key(|p| !matches!(p, Pre::CharSub(_) | Pre::ByteSub(_)));
            Pre::Chain(v)
        }
    }
}

fn gen_tok(rng: &mut Rng) -> Tok {
    if rng.chance(0.7) {
        Tok::Byte(rng.chance(0.5), rng.chance(0.5), rng.chance(0.4))
    } else {
        Tok::Char(rng.chance(0.5), rng.chance(0.4))
    }
}

fn gen_tb(rng: &mut Rng) -> (u8, usize) {
    (rng.range(0, 4) as u8, rng.usize(0, 4))
}

impl Scenario for C08 {
    const PROP: &'static str = "C08";
    const LABEL: u64 = 8;

    fn generate(run_seed: u64, _tier: Tier, _index: u64) -> Self {
        let mut rng = Rng::new(derive(run_seed, 1));
        let nfiles = rng.usize(1, 3);
        let malformed = rng.chance(0.15);
        // text-to-text data: explicit targets that differ from the input, and inputs that occur
        // more than once with different targets (several references per source)
        let explicit_targets = rng.chance(0.3);
        let mut earlier_inputs: Vec<String> = vec![];
        let mut files = vec![];
        let mut id = 0u64;
        for _ in 0..nfiles {
            let n = rng.usize(3, 14);
            let mut s = String::new();
            for _ in 0..n {
                id += 1;
                let text = gen_text(&mut rng, id);
                if malformed && rng.chance(0.15) {
                    s.push_str(match rng.below(3) {
                        0 => "this is not json\n",
                        1 => "{\"target\": \"no input key\"}\n",
                        _ => "[1, 2]\n",
                    });
                    continue;
                }
                if explicit_targets && rng.chance(0.45) {
                    let input = if rng.chance(0.08) {
                        // degenerate sources
                        rng.pick(&["", " ", "a"]).to_string()
                    } else if !earlier_inputs.is_empty() && rng.chance(0.7) {
                        rng.pick(&earlier_inputs).clone()
                    } else {
                        format!("source text {} ab ba", rng.below(4))
                    };
                    earlier_inputs.push(input.clone());
                    s.push_str(&format!("{{\"input\": \"{input}\", \"target\": \"{text}\"}}\n"));
                } else if rng.chance(0.5) {
                    earlier_inputs.push(text.clone());
                    s.push_str(&format!("{{\"input\": \"{text}\"}}\n"));
                } else {
                    earlier_inputs.push(text.clone());
                    s.push_str(&format!("{{\"input\": \"{text}\", \"target\": \"{text}\"}}\n"));
                }
            }
            files.push(s);
        }
        let task = match if explicit_targets { rng.range(1, 2) } else { rng.below(3) } {
            0 => Task::WsCorr(Tok::Byte(true, rng.chance(0.5), rng.chance(0.4))),
            1 => Task::Gen(rng.chance(0.5), gen_tok(&mut rng), if rng.chance(0.5) { Some(" >> ".into()) } else { None }),
            _ => Task::CondGen(gen_tok(&mut rng), gen_tok(&mut rng)),
        };
        let ws_only = matches!(task, Task::WsCorr(_));
        let pre = if nfiles > 1 && rng.chance(0.2) {
            (0..nfiles).map(|_| gen_pre(&mut rng, ws_only, 0)).collect()
        } else {
            vec![gen_pre(&mut rng, ws_only, 0)]
        };
        let post = match rng.below(6) {
            0 | 1 => Post::None,
            2 => Post::Clip,
            3 => Post::Mask(*rng.pick(&[0.1, 0.3]), rng.usize(1, 2), 0.5),
            4 => Post::Chain(vec![Post::Mask(0.2, 1, 0.5), Post::Clip]),
            _ => Post::Switch(vec![Post::None, Post::Mask(0.3, 1, 0.5)], vec![0.5, 0.5]),
        };
        let shuffle = rng.chance(0.4);
        let sort = rng.chance(0.3);
        let seed = if shuffle || rng.chance(0.7) { Some(rng.below(1000)) } else { None };
        let total: usize = id as usize;
        let kind = rng.below(10);
        // skip/limit of the base stream (the split variation needs the full stream as its base)
        let (skip, limit) = if kind >= 5 && kind <= 6 {
            (0, None)
        } else {
            (
                if rng.chance(0.3) { rng.usize(0, 4) } else { 0 },
                if rng.chance(0.3) { Some(rng.usize(0, total + 2)) } else { None },
            )
        };
        let mut variations = vec![];
        let world = |rng: &mut Rng| -> Vec<(u8, usize)> { (0..rng.usize(2, 4)).map(|_| gen_tb(rng)).collect() };
        match kind {
            0..=1 => {
                let (t, b) = gen_tb(&mut rng);
                variations.push(Variation::Same { t, b });
            }
            2..=4 => variations.push(Variation::World { ranks: world(&mut rng) }),
            5..=6 => variations.push(Variation::Split { k: rng.usize(0, total + 1), tv: gen_tb(&mut rng), tt: gen_tb(&mut rng) }),
            _ => {
                let ranks = if rng.chance(0.4) { world(&mut rng) } else { vec![gen_tb(&mut rng)] };
                variations.push(Variation::Crash {
                    m: rng.usize(0, total),
                    ff: if rng.chance(0.6) { None } else { Some(rng.usize(0, total + 2)) },
                    ranks,
                });
            }
        }
        if rng.chance(0.35) {
            let (t, b) = gen_tb(&mut rng);
            variations.push(Variation::Same { t, b });
        }
        if rng.chance(0.25) {
            let (t, b) = gen_tb(&mut rng);
            variations.push(Variation::Reiterate { m: rng.usize(0, total), t, b });
        }
        if rng.chance(0.25) {
            let (t, b) = gen_tb(&mut rng);
            let (tc, bc) = gen_tb(&mut rng);
            variations.push(Variation::Coexist { k: rng.usize(0, total), t, b, tc, bc });
        }
        let weighted_ok = files.iter().all(|f| !f.is_empty());
        let strategy = match rng.below(3) {
            2 if weighted_ok => 2,
            x => (x % 2) as u8,
        };
        let (t0, b0) = gen_tb(&mut rng);
        C08 {
            run_seed,
            mode: SMode::draw(&mut rng),
            files,
            chars_file: gen_chars_file(&mut rng),
            pre,
            task,
            post,
            strategy,
            t0,
            b0,
            batch_limit: 0,
            padded_item_size: false,
            max_length: *rng.pick(&[8usize, 24, 64, 512]),
            shuffle,
            prefetch: rng.usize(0, 4),
            sort,
            seed,
            epoch: rng.usize(0, 3),
            skip,
            limit,
            variations,
            trainer_pattern: rng.chance(0.5),
            poll_after_end: false,
            setters_swapped: false,
            iter_twice: false,
            consumer_pause: if rng.chance(0.2) { Some((rng.below(3) as u8, rng.range(520_000, 6_000_000) as u32)) } else { None },
        }
        .with_batch(&mut rng)
    }

    fn run_seed(&self) -> u64 {
        self.run_seed
    }

    fn size(&self) -> u64 {
        fn pre_size(p: &Pre) -> u64 {
            match p {
                Pre::None => 0,
                Pre::Switch(v, _) | Pre::Chain(v) => 2 + v.iter().map(pre_size).sum::<u64>(),
                _ => 1,
            }
        }
        self.files.iter().map(|f| f.lines().count() as u64 * 3).sum::<u64>()
            + self.pre.iter().map(pre_size).sum::<u64>()
            + (self.post != Post::None) as u64
            + self.variations.len() as u64 * 2
            + self.variations
                .iter()
                .map(|v| match v {
                    Variation::World { ranks } | Variation::Crash { ranks, .. } => ranks.len() as u64,
                    Variation::Reiterate { m, .. } => 1 + (*m > 0) as u64,
                    _ => 1,
                })
                .sum::<u64>()
            + self.shuffle as u64
            + self.sort as u64
            + self.t0 as u64
            + self.b0 as u64
            + (self.skip > 0) as u64
            + self.limit.is_some() as u64
            + self.epoch as u64
            + self.trainer_pattern as u64
    }

    fn shrink(&self) -> Vec<Self> {
        let mut v = vec![];
        let mut push = |f: &dyn Fn(&mut C08) -> bool| {
            let mut c = self.clone();
            if f(&mut c) {
                v.push(c);
            }
        };
        // fewer variations
        if self.variations.len() > 1 {
            for i in 0..self.variations.len() {
                push(&|c| {
                    c.variations.remove(i);
                    true
                });
            }
        }
        // fewer lines (drop from the end of each file / drop whole files when global preprocessing)
        if self.files.len() > 1 && self.pre.len() == 1 {
            for i in 0..self.files.len() {
                push(&|c| {
                    c.files.remove(i);
                    if c.strategy == 2 && c.files.iter().any(|f| f.is_empty()) {
                        c.strategy = 0;
                    }
                    true
                });
            }
        }
        for fi in 0..self.files.len() {
            let lines: Vec<&str> = self.files[fi].split_inclusive('\n').collect();
            if lines.len() > 1 {
                let half = lines[..lines.len() / 2].concat();
                push(&|c| {
                    c.files[fi] = half.clone();
                    true
                });
                let but_last = lines[..lines.len() - 1].concat();
                push(&|c| {
                    c.files[fi] = but_last.clone();
                    true
                });
                let but_first = lines[1..].concat();
                push(&|c| {
                    c.files[fi] = but_first.clone();
                    true
                });
            }
        }
        // simpler pipeline
        for pi in 0..self.pre.len() {
            match &self.pre[pi] {
                Pre::Switch(xs, _) | Pre::Chain(xs) => {
                    for x in xs {
                        let x = x.clone();
                        push(&|c| {
                            c.pre[pi] = x.clone();
                            true
                        });
                    }
                }
                Pre::None => {}
                _ => push(&|c| {
                    c.pre[pi] = Pre::None;
                    true
                }),
            }
        }
        if self.pre.len() > 1 {
            push(&|c| {
                c.pre.truncate(1);
                true
            });
        }
        if self.post != Post::None {
            push(&|c| {
                c.post = Post::None;
                true
            });
        }
        if self.shuffle {
            push(&|c| {
                c.shuffle = false;
                true
            });
        }
        if self.sort {
            push(&|c| {
                c.sort = false;
                true
            });
        }
        if self.skip > 0 {
            push(&|c| {
                c.skip = 0;
                true
            });
        }
        if self.limit.is_some() {
            push(&|c| {
                c.limit = None;
                true
            });
        }
        if self.epoch > 0 {
            push(&|c| {
                c.epoch = 0;
                true
            });
        }
        if self.consumer_pause.is_some() {
            push(&|c| {
                c.consumer_pause = None;
                true
            });
        }
        if self.poll_after_end {
            push(&|c| {
                c.poll_after_end = false;
                true
            });
        }
        if self.setters_swapped {
            push(&|c| {
                c.setters_swapped = false;
                true
            });
        }
        if self.iter_twice {
            push(&|c| {
                c.iter_twice = false;
                true
            });
        }
        if self.trainer_pattern {
            push(&|c| {
                c.trainer_pattern = false;
                true
            });
        }
        if self.strategy != 0 {
            push(&|c| {
                c.strategy = 0;
                true
            });
        }
        if self.t0 > 0 {
            push(&|c| {
                c.t0 -= 1;
                true
            });
        }
        if self.b0 > 0 {
            push(&|c| {
                c.b0 = 0;
                true
            });
        }
        // smaller worlds / thread counts inside the variations
        for vi in 0..self.variations.len() {
            match &self.variations[vi] {
                Variation::World { ranks } if ranks.len() > 2 => push(&|c| {
                    if let Variation::World { ranks } = &mut c.variations[vi] {
                        ranks.pop();
                    }
                    true
                }),
                Variation::Crash { ranks, .. } if ranks.len() > 1 => push(&|c| {
                    if let Variation::Crash { ranks, .. } = &mut c.variations[vi] {
                        ranks.pop();
                    }
                    true
                }),
                _ => {}
            }
            push(&|c| {
                let mut changed = false;
                let mut z = |tb: &mut (u8, usize)| {
                    if *tb != (0, 0) {
                        *tb = (tb.0.min(1), 0);
                        changed = true;
                    }
                };
                match &mut c.variations[vi] {
                    Variation::Same { t, b } | Variation::Reiterate { t, b, .. } | Variation::Coexist { t, b, .. } => {
                        let mut tb = (*t, *b);
                        z(&mut tb);
                        *t = tb.0;
                        *b = tb.1;
                    }
                    Variation::World { ranks } | Variation::Crash { ranks, .. } => ranks.iter_mut().for_each(&mut z),
                    Variation::Split { tv, tt, .. } => {
                        z(tv);
                        z(tt);
                    }
                }
                changed && c.variations[vi] != self.variations[vi]
            });
        }
        if self.mode != SMode::Uniform {
            push(&|c| {
                c.mode = SMode::Uniform;
                true
            });
        }
        v
    }

    fn finding_signature(&self, v: &Violation) -> String {
        fn has_spell(p: &Pre) -> bool {
            match p {
                Pre::Spell(.., with_file) => *with_file,
                Pre::Switch(v, _) | Pre::Chain(v) => v.iter().any(has_spell),
                _ => false,
            }
        }
        format!("{}/spelling-with-characters-file={}", v.class, self.pre.iter().any(has_spell))
    }

    fn execute(&self, plan: &Plan) -> Outcome {
        let dir = ScratchDir::new("c08", self.run_seed);
        let mut paths = vec![];
        for (i, f) in self.files.iter().enumerate() {
            let p = dir.path(&format!("f{i}.jsonl"));
            std::fs::write(&p, f).expect("write jsonl file");
            paths.push(p);
        }
        let chars_path = dir.path("chars.txt");
        std::fs::write(&chars_path, &self.chars_file).expect("write chars file");

        let mut ex = Exec {
            sc: self,
            plan,
            paths,
            chars_path,
            stats: RunStats::default(),
            traces: vec![],
            hh: verif_rt::prng::Fnv::default(),
            lh: verif_rt::prng::Fnv::default(),
            diverged: false,
            nontrivial: false,
            proc_no: 0,
        };
        let violation = ex.judge_all();
        let diverged = ex.diverged;
        Outcome {
            violation: if diverged { None } else { violation },
            nontrivial: ex.nontrivial,
            diverged,
            traces: ex.traces,
            log_hash: ex.lh.0,
            history_hash: ex.hh.0,
            stats: ex.stats,
        }
    }
}

impl C08 {
    fn with_batch(mut self, rng: &mut Rng) -> Self {
        self.padded_item_size = rng.chance(0.4);
        self.batch_limit = if self.padded_item_size { rng.usize(20, 300) } else { rng.usize(0, 6) };
        self.poll_after_end = rng.chance(0.3);
        self.setters_swapped = rng.chance(0.4);
        self.iter_twice = rng.chance(0.3);
        self
    }

    fn base(&self) -> Inst {
        Inst {
            label: "R0".into(),
            t: self.t0,
            b: self.b0,
            shuffle: self.shuffle,
            sort: self.sort,
            skip: self.skip,
            limit: self.limit,
            distributed: None,
            ff: 0,
            crash_after: None,
            reiterate_after: None,
            companion: None,
        }
    }
}

struct Exec<'a> {
    sc: &'a C08,
    plan: &'a Plan,
    paths: Vec<String>,
    chars_path: String,
    stats: RunStats,
    traces: Vec<Vec<u16>>,
    hh: verif_rt::prng::Fnv,
    lh: verif_rt::prng::Fnv,
    diverged: bool,
    nontrivial: bool,
    proc_no: u64,
}

impl Exec<'_> {
    fn run(&mut self, inst: &Inst) -> InstOut {
        let pi = self.proc_no;
        self.proc_no += 1;
        let sc = self.sc;
        let mut spec = ProcSpec::new(sc.mode.to_mode(), derive(sc.run_seed, 100 + pi), derive(sc.run_seed, 200 + pi));
        spec.step_cap = 400_000;
        spec.stack_size = 1024 * 1024;
        if let Plan::Replay { traces, strict } = self.plan {
            spec = spec.replaying(traces.get(pi as usize).cloned().unwrap_or_default(), *strict);
        }
        let args = TrainLoaderArgs {
            files: self.paths.clone(),
            pipeline: sc.pipeline(&self.chars_path),
            strategy: match sc.strategy {
                0 => GenerationStrategy::Sequential,
                1 => GenerationStrategy::Interleaved,
                _ => GenerationStrategy::Weighted,
            },
            num_threads: inst.t,
            buffer_size: inst.b,
            batch_limit: sc.batch_limit,
            batch_limit_is_padded_item_size: sc.padded_item_size,
            max_length: sc.max_length,
            shuffle: inst.shuffle,
            prefetch_factor: sc.prefetch,
            sort: inst.sort,
            seed: sc.seed,
            skip: inst.skip,
            limit: inst.limit,
            distributed: inst.distributed,
        };
        let companion_args = inst.companion.map(|(k, tc, bc)| {
            let mut a = args.clone();
            a.skip = 0;
            a.limit = Some(k);
            a.distributed = None;
            a.num_threads = tc;
            a.buffer_size = bc;
            a
        });
        if companion_args.is_some() {
            self.stats.fault("second_loader_in_the_same_process");
        }
        let epoch = sc.epoch;
        let ff = inst.ff;
        let crash_after = inst.crash_after;
        let reiterate_after = inst.reiterate_after;
        let pre_iter = sc.trainer_pattern && !inst.label.starts_with('R');
        if pre_iter {
            self.stats.fault("iter_called_before_set_epoch_and_fast_forward");
        }
        let swapped = sc.setters_swapped && !inst.label.starts_with('R');
        if swapped && inst.ff > 0 {
            self.stats.fault("set_fast_forward_called_before_set_epoch");
        }
        let iter_twice = sc.iter_twice && !inst.label.starts_with('R');
        if iter_twice {
            self.stats.fault("iter_called_twice_in_a_row_after_the_setters");
        }
        let poll_again = sc.poll_after_end && !inst.label.starts_with('R');
        if poll_again {
            self.stats.fault("next_called_again_after_the_end_of_the_epoch");
        }
        let pause = if inst.label.starts_with('R') { None } else { sc.consumer_pause };
        if pause.is_some() {
            self.stats.fault("consumer_pause_of_seconds");
        }
        type Slot = Arc<Mutex<(Vec<Vec<String>>, Option<String>)>>;
        let slot: Slot = Arc::new(Mutex::new((vec![], None)));
        let slot2 = slot.clone();
        let r = run_process(&spec, move || {
            let mut other = match companion_args {
                None => None,
                Some(a) => match TrainLoaderDriver::new(a) {
                    Ok(mut d) => {
                        d.set_epoch(epoch);
                        // the other loader is reconfigured on its own (e.g. shorter sequences for
                        // validation); that must not reach the observed loader
                        d.set_max_length(3);
                        if d.iter().is_err() {
                            None
                        } else {
                            Some(d)
                        }
                    }
                    Err(_) => None,
                },
            };
            let mut drv = match TrainLoaderDriver::new(args) {
                Ok(d) => d,
                Err(e) => {
                    slot2.lock().unwrap().1 = Some(format!("new: {e:#}"));
                    return;
                }
            };
            if pre_iter {
                // what the trainer does before it knows where to resume
                if let Err(e) = drv.iter() {
                    slot2.lock().unwrap().1 = Some(format!("first iter: {e:#}"));
                    return;
                }
                let _ = drv.min_items();
                rt::log(Kind::Fault, 7, 0);
            }
            if swapped {
                drv.set_fast_forward(ff);
                drv.set_epoch(epoch);
            } else {
                drv.set_epoch(epoch);
                drv.set_fast_forward(ff);
            }
            if let Err(e) = drv.iter() {
                slot2.lock().unwrap().1 = Some(format!("iter: {e:#}"));
                return;
            }
            if iter_twice {
                if let Err(e) = drv.iter() {
                    slot2.lock().unwrap().1 = Some(format!("second iter in a row: {e:#}"));
                    return;
                }
            }
            if let Some(m) = reiterate_after {
                let mut seen = 0usize;
                while seen < m {
                    match drv.next_batch() {
                        Ok(Some(items)) => seen += items.len(),
                        _ => break,
                    }
                }
                rt::log(Kind::Fault, 6, seen as u64);
                if let Err(e) = drv.iter() {
                    slot2.lock().unwrap().1 = Some(format!("second iter: {e:#}"));
                    return;
                }
            }
            let mut delivered = 0usize;
            let mut bno = 0u64;
            let mut other_passes = 0u64;
            loop {
                if let Some((at, ticks)) = pause {
                    if at as u64 == bno {
                        rt::log(Kind::Idle, ticks as u64, 0);
                        rt::sleep_ticks(ticks as u64);
                    }
                }
                if let Some(m) = crash_after {
                    if delivered >= m {
                        rt::log(Kind::Fault, 4, delivered as u64);
                        break;
                    }
                }
                if let Some(o) = other.as_mut() {
                    // the validation loader is consumed in between
                    if !matches!(o.next_batch(), Ok(Some(_))) {
                        // exhausted: the next validation pass starts (a new iter() while the observed
                        // loader is in the middle of its epoch); after two passes it goes away
                        other_passes += 1;
                        if other_passes > 2 || o.iter().is_err() {
                            other = None;
                        } else {
                            rt::log(Kind::Fault, 12, other_passes);
                        }
                    }
                }
                match drv.next_batch() {
                    Ok(Some(items)) => {
                        rt::log(Kind::Batch, bno, items.len() as u64);
                        bno += 1;
                        delivered += items.len();
                        let strs: Vec<String> = items.iter().map(|it| format!("{it:?}")).collect();
                        slot2.lock().unwrap().0.push(strs);
                    }
                    Ok(None) => {
                        rt::log(Kind::RecvEnd, bno, 0);
                        if poll_again {
                            for _ in 0..2 {
                                if let Ok(Some(items)) = drv.next_batch() {
                                    // reported as part of the stream: it must not exist
                                    rt::log(Kind::Batch, bno, items.len() as u64);
                                    bno += 1;
                                    let strs: Vec<String> = items.iter().map(|it| format!("{it:?}")).collect();
                                    slot2.lock().unwrap().0.push(strs);
                                }
                            }
                            rt::log(Kind::Note, 3, 0);
                        }
                        break;
                    }
                    Err(e) => {
                        slot2.lock().unwrap().1 = Some(format!("next: {e:#}"));
                        break;
                    }
                }
            }
            rt::log(Kind::Drop, delivered as u64, 0);
            drop(drv);
            drop(other);
            rt::wait_threads_exit();
        });
        self.stats.absorb_proc(&r);
        self.stats.probe_max("max_decisions_in_one_run", r.decisions);
        self.stats.probe("os_entropy_requests_served_from_the_run_seed", r.entropy_calls);
        self.stats.fault("fresh_process_entropy");
        if inst.crash_after.is_some() {
            self.stats.fault("crash_drop_mid_epoch");
        }
        if inst.reiterate_after.is_some() {
            self.stats.fault("iterator_abandoned_by_a_second_iter_call");
        }
        if inst.ff > 0 {
            self.stats.fault("restart_with_fast_forward");
        }
        if inst.distributed.is_some() {
            self.stats.fault("rank_node");
        }
        self.hh.u64(r.history_hash);
        for x in &r.trace {
            self.hh.u64(*x as u64);
        }
        self.lh.u64(r.log_hash);
        self.diverged |= r.status == Status::ReplayDiverged;
        self.nontrivial |= r.max_tasks >= 3 && r.switches >= 4;
        self.traces.push(r.trace.clone());
        let (batches, err) = std::mem::take(&mut *slot.lock().unwrap());
        InstOut {
            batches,
            err,
            live_after: r.live_threads().iter().map(|t| t.name.clone()).collect(),
            panics: r.panics.clone(),
            status: r.status,
        }
    }

    /// a fully consumed instance must have ended normally
    fn ended_ok(&self, inst: &Inst, o: &InstOut) -> Option<Violation> {
        if self.diverged {
            return None;
        }
        if let Some(e) = &o.err {
            return Some(Violation { class: "loader:error".into(), detail: format!("{}: {e}", inst.label) });
        }
        match &o.status {
            Status::Completed => {}
            s => {
                if inst.crash_after.is_some() {
                    return None; // what happens after a drop is C09's business
                }
                return Some(Violation {
                    class: format!("no-termination:{}", s.class()),
                    detail: format!("{} (T={}, B={}): run ended as {:?}; threads alive {:?}; panics {:?}", inst.label, inst.t, inst.b, s, o.live_after, o.panics),
                });
            }
        }
        if !o.panics.is_empty() {
            return Some(Violation { class: "panic".into(), detail: format!("{}: {:?}", inst.label, o.panics) });
        }
        None
    }

    fn ids(&mut self, label: &str, o: &InstOut) -> Result<Vec<u64>, Violation> {
        let mut v = vec![];
        let mut seen = BTreeSet::new();
        for it in o.items() {
            match item_id(it) {
                Some(id) => {
                    if !seen.insert(id) {
                        return Err(Violation {
                            class: "stream:duplicate-item".into(),
                            detail: format!("{label}: item with id {id} delivered twice"),
                        });
                    }
                    v.push(id);
                }
                None => {
                    self.stats.probe("unattributable_items", 1);
                    return Err(Violation { class: "harness:unattributable".into(), detail: format!("{label}: no id in {it}") });
                }
            }
        }
        Ok(v)
    }

    fn judge_all(&mut self) -> Option<Violation> {
        let sc = self.sc;
        let v = |class: &str, detail: String| Some(Violation { class: class.into(), detail });
        let base = sc.base();
        let r0 = self.run(&base);
        if self.diverged {
            return None;
        }
        if r0.err.is_some() && r0.batches.is_empty() {
            // configuration rejected by the loader (nothing to compare)
            self.stats.probe("configurations_rejected_by_loader", 1);
            return None;
        }
        if let Some(x) = self.ended_ok(&base, &r0) {
            return Some(x);
        }
        // batches are non-empty and partition the item stream (auxiliary invariant)
        if r0.batches.iter().any(|b| b.is_empty()) {
            return v("batches:empty", "R0 delivered an empty batch".into());
        }
        let r0_ids = match self.ids("R0", &r0) {
            Ok(x) => x,
            Err(e) if e.class.starts_with("harness") => return None,
            Err(e) => return Some(e),
        };
        let by_id: HashMap<u64, &String> = r0_ids.iter().copied().zip(r0.items()).collect();
        // plain order (no shuffle / sort): the global item order of the stream
        let plain = if sc.shuffle || sc.sort {
            let mut p = base.clone();
            p.label = "Rplain".into();
            p.shuffle = false;
            p.sort = false;
            let o = self.run(&p);
            if let Some(x) = self.ended_ok(&p, &o) {
                return Some(x);
            }
            let ids = match self.ids("Rplain", &o) {
                Ok(x) => x,
                Err(e) if e.class.starts_with("harness") => return None,
                Err(e) => return Some(e),
            };
            // same items as R0, item by item
            let set0: BTreeSet<u64> = r0_ids.iter().copied().collect();
            let setp: BTreeSet<u64> = ids.iter().copied().collect();
            if set0 != setp {
                return v("repro:shuffled-stream-has-other-items", format!("R0 (shuffle={}, sort={}) delivered ids {:?}, the unshuffled stream {:?}", sc.shuffle, sc.sort, set0, setp));
            }
            for (id, it) in ids.iter().zip(o.items()) {
                if by_id[id] != it {
                    return v("repro:item-differs", format!("item {id} differs between the shuffled/sorted and the plain stream:\n  {}\n  {}", by_id[id], it));
                }
            }
            ids
        } else {
            r0_ids.clone()
        };
        // how many raw lines lie in the base window? (lossless = nothing was dropped on the way)
        let raw_total: usize = sc.files.iter().map(|f| f.lines().count()).sum();
        let window = raw_total.min(sc.limit.unwrap_or(usize::MAX)).saturating_sub(sc.skip);
        let lossless = plain.len() == window;
        if !lossless {
            self.stats.probe("runs_with_dropped_lines_or_items", 1);
        }
        self.stats.param("items_in_stream", plain.len() as i64);

        for var in &sc.variations {
            match var {
                Variation::Same { t, b } => {
                    let mut i = base.clone();
                    i.label = format!("same(T={t},B={b})");
                    i.t = *t;
                    i.b = *b;
                    let o = self.run(&i);
                    if let Some(x) = self.ended_ok(&i, &o) {
                        return Some(x);
                    }
                    if self.diverged {
                        return None;
                    }
                    if o.batches != r0.batches {
                        return Some(diff_batches("repro", &format!("R0(T={},B={})", sc.t0, sc.b0), &r0, &i.label, &o));
                    }
                    self.stats.probe("identical_streams_confirmed", 1);
                }
                Variation::Reiterate { m, t, b } => {
                    let mut i = base.clone();
                    i.label = format!("second iter() after {m} items (T={t},B={b})");
                    i.t = *t;
                    i.b = *b;
                    i.reiterate_after = Some(*m);
                    let o = self.run(&i);
                    if let Some(x) = self.ended_ok(&i, &o) {
                        return Some(x);
                    }
                    if self.diverged {
                        return None;
                    }
                    if o.batches != r0.batches {
                        return Some(diff_batches("reiterate", "R0", &r0, &i.label, &o));
                    }
                    self.stats.probe("second_iter_streams_confirmed", 1);
                }
                Variation::Coexist { k, t, b, tc, bc } => {
                    let mut i = base.clone();
                    i.label = format!("next to a second loader(limit={k},T={tc},B={bc}) (T={t},B={b})");
                    i.t = *t;
                    i.b = *b;
                    i.companion = Some((*k, *tc, *bc));
                    let o = self.run(&i);
                    if let Some(x) = self.ended_ok(&i, &o) {
                        return Some(x);
                    }
                    if self.diverged {
                        return None;
                    }
                    if o.batches != r0.batches {
                        return Some(diff_batches("coexist", "R0", &r0, &i.label, &o));
                    }
                    self.stats.probe("streams_next_to_a_second_loader_confirmed", 1);
                }
                Variation::World { ranks } => {
                    let ws = ranks.len();
                    let mut union: BTreeMap<u64, usize> = BTreeMap::new();
                    for (r, (t, b)) in ranks.iter().enumerate() {
                        let mut i = base.clone();
                        i.label = format!("rank{r}/{ws}(T={t},B={b})");
                        i.t = *t;
                        i.b = *b;
                        i.distributed = Some((r, ws));
                        let o = self.run(&i);
                        if let Some(x) = self.ended_ok(&i, &o) {
                            return Some(x);
                        }
                        if self.diverged {
                            return None;
                        }
                        let ids = match self.ids(&i.label, &o) {
                            Ok(x) => x,
                            Err(e) if e.class.starts_with("harness") => return None,
                            Err(e) => return Some(e),
                        };
                        for (id, it) in ids.iter().zip(o.items()) {
                            if let Some(prev) = union.insert(*id, r) {
                                return v("shard:overlap", format!("item {id} delivered to rank {prev} and rank {r} of {ws}"));
                            }
                            match by_id.get(id) {
                                None => return v("shard:foreign-item", format!("rank {r}/{ws} delivered item {id} that the single-process stream does not contain")),
                                Some(s) if *s != it => {
                                    return v("shard:item-differs", format!("item {id} processed differently on rank {r}/{ws}:\n  single: {s}\n  rank:   {it}"))
                                }
                                _ => {}
                            }
                        }
                        if lossless && !sc.shuffle && !sc.sort {
                            // rank r gets the positions r, r+ws, ... of the window, in order
                            let want: Vec<u64> = plain.iter().copied().skip(r).step_by(ws).collect();
                            if ids != want {
                                return v("shard:wrong-positions", format!("rank {r}/{ws} delivered {ids:?}, expected positions r, r+W, ...: {want:?}"));
                            }
                        }
                    }
                    if union.len() != r0_ids.len() {
                        let missing: Vec<u64> = r0_ids.iter().copied().filter(|i| !union.contains_key(i)).collect();
                        return v("shard:union-differs", format!("ranks of world {ws} together miss items {missing:?} of the single-process stream"));
                    }
                    self.stats.probe("worlds_checked", 1);
                }
                Variation::Split { k, tv, tt } => {
                    let mut val = base.clone();
                    val.label = format!("val(limit={k})");
                    val.t = tv.0;
                    val.b = tv.1;
                    val.limit = Some(*k);
                    let mut tr = base.clone();
                    tr.label = format!("train(skip={k})");
                    tr.t = tt.0;
                    tr.b = tt.1;
                    tr.skip = *k;
                    let mut all = BTreeMap::new();
                    let mut parts = vec![];
                    for i in [&val, &tr] {
                        let o = self.run(i);
                        if let Some(x) = self.ended_ok(i, &o) {
                            return Some(x);
                        }
                        if self.diverged {
                            return None;
                        }
                        let ids = match self.ids(&i.label, &o) {
                            Ok(x) => x,
                            Err(e) if e.class.starts_with("harness") => return None,
                            Err(e) => return Some(e),
                        };
                        for (id, it) in ids.iter().zip(o.items()) {
                            if let Some(prev) = all.insert(*id, i.label.clone()) {
                                return v("split:overlap", format!("item {id} is in {prev} and in {}", i.label));
                            }
                            match by_id.get(id) {
                                None => return v("split:foreign-item", format!("{} delivered item {id} that the full stream does not contain", i.label)),
                                Some(s) if *s != it => return v("split:item-differs", format!("item {id} processed differently in {}:\n  full: {s}\n  part: {it}", i.label)),
                                _ => {}
                            }
                        }
                        parts.push(ids);
                    }
                    if all.len() != r0_ids.len() {
                        let missing: Vec<u64> = r0_ids.iter().copied().filter(|i| !all.contains_key(i)).collect();
                        return v("split:union-differs", format!("skip={k} and limit={k} together miss items {missing:?}"));
                    }
                    if lossless {
                        let kk = (*k).min(plain.len());
                        let want_val: BTreeSet<u64> = plain[..kk].iter().copied().collect();
                        let got_val: BTreeSet<u64> = parts[0].iter().copied().collect();
                        if want_val != got_val {
                            return v("split:validation-is-not-the-first-k", format!("limit={k} delivered {got_val:?}, the first {k} items of the stream are {want_val:?}"));
                        }
                    }
                    self.stats.probe("splits_checked", 1);
                }
                Variation::Crash { m, ff, ranks } => {
                    let ws = ranks.len();
                    // ---- the job that crashes (rank 0 of the world is observed)
                    let mut c = base.clone();
                    c.label = format!("crashed(m={m})");
                    c.t = ranks[0].0;
                    c.b = ranks[0].1;
                    c.crash_after = Some(*m);
                    let single = ws == 1;
                    if !single {
                        c.distributed = Some((0, ws));
                    }
                    let co = self.run(&c);
                    if self.diverged {
                        return None;
                    }
                    if let Some(x) = self.ended_ok(&c, &co) {
                        return Some(x);
                    }
                    if !matches!(co.status, Status::Completed) {
                        self.stats.probe("crashed_instance_threads_did_not_exit", 1);
                    }
                    let delivered: usize = co.batches.iter().map(|b| b.len()).sum();
                    if single {
                        // what it delivered before the crash is a prefix of the uninterrupted job's batches
                        let n = co.batches.len();
                        if n > r0.batches.len() || co.batches[..] != r0.batches[..n] {
                            return Some(diff_batches("resume:crashed-prefix", "R0", &r0, &c.label, &co));
                        }
                    }
                    // ---- restart: every rank resumes with fast_forward(k) in a fresh process
                    let k = ff.unwrap_or(delivered * ws);
                    let mut resumed: BTreeMap<u64, usize> = BTreeMap::new();
                    let mut seqs = vec![];
                    for (r, (t, b)) in ranks.iter().enumerate() {
                        let mut i = base.clone();
                        i.label = format!("resumed(ff={k}) rank{r}/{ws}");
                        i.t = *t;
                        i.b = *b;
                        i.ff = k;
                        if !single {
                            i.distributed = Some((r, ws));
                        }
                        let o = self.run(&i);
                        if let Some(x) = self.ended_ok(&i, &o) {
                            return Some(x);
                        }
                        if self.diverged {
                            return None;
                        }
                        let ids = match self.ids(&i.label, &o) {
                            Ok(x) => x,
                            Err(e) if e.class.starts_with("harness") => return None,
                            Err(e) => return Some(e),
                        };
                        for (id, it) in ids.iter().zip(o.items()) {
                            if let Some(prev) = resumed.insert(*id, r) {
                                return v("resume:overlap", format!("after fast_forward({k}) item {id} is delivered to rank {prev} and rank {r}"));
                            }
                            match by_id.get(id) {
                                None => return v("resume:foreign-item", format!("{} delivered item {id} that the uninterrupted stream does not contain", i.label)),
                                Some(s) if *s != it => {
                                    return v("resume:item-differs", format!("item {id} processed differently after the restart ({}):\n  uninterrupted: {s}\n  resumed:       {it}", i.label))
                                }
                                _ => {}
                            }
                        }
                        seqs.push(ids);
                    }
                    if lossless {
                        let kk = k.min(plain.len());
                        let want: Vec<u64> = plain[kk..].to_vec();
                        let want_set: BTreeSet<u64> = want.iter().copied().collect();
                        let got_set: BTreeSet<u64> = resumed.keys().copied().collect();
                        if want_set != got_set {
                            let missing: Vec<&u64> = want_set.difference(&got_set).collect();
                            let extra: Vec<&u64> = got_set.difference(&want_set).collect();
                            return v(
                                "resume:wrong-items",
                                format!("after fast_forward({k}) the resumed job ({ws} ranks) misses {missing:?} and repeats {extra:?} relative to the uninterrupted stream after its first {k} items"),
                            );
                        }
                        if single && !sc.shuffle && !sc.sort && seqs[0] != want {
                            return v("resume:wrong-order", format!("after fast_forward({k}) items arrive as {:?}, uninterrupted order is {:?}", seqs[0], want));
                        }
                        self.stats.probe("resumes_checked_against_uninterrupted_stream", 1);
                    } else {
                        self.stats.probe("resumes_checked_itemwise_only", 1);
                    }
                }
            }
        }
        None
    }
}

fn diff_batches(prefix: &str, la: &str, a: &InstOut, lb: &str, b: &InstOut) -> Violation {
    let ia: Vec<&String> = a.items();
    let ib: Vec<&String> = b.items();
    let n = ia.len().min(ib.len());
    for i in 0..n {
        if ia[i] != ib[i] {
            let same_id = item_id(ia[i]).is_some() && item_id(ia[i]) == item_id(ib[i]);
            return Violation {
                class: format!("{prefix}:{}", if same_id { "item-differs" } else { "order-differs" }),
                detail: format!("{la} and {lb} differ at item {i}:\n  {}\n  {}", ia[i], ib[i]),
            };
        }
    }
    if ia.len() != ib.len() && !prefix.contains("prefix") {
        return Violation {
            class: format!("{prefix}:length-differs"),
            detail: format!("{la} delivered {} items, {lb} delivered {}", ia.len(), ib.len()),
        };
    }
    let sa: Vec<usize> = a.batches.iter().map(|x| x.len()).collect();
    let sb: Vec<usize> = b.batches.iter().map(|x| x.len()).collect();
    Violation {
        class: format!("{prefix}:batches-differ"),
        detail: format!("{la} and {lb} deliver the same items in different batches: sizes {sa:?} vs {sb:?}"),
    }
}

pub fn check(tier: Tier) -> i32 {
    let seed = base_seed();
    let cfg = SearchCfg {
        tier,
        base_seed: seed,
        runs: match tier {
            Tier::Quick => env_u64("VERIF_RUNS", 24_000),
            Tier::Thorough => env_u64("VERIF_RUNS", 1_000_000),
        },
        max_wall_s: match tier {
            Tier::Quick => 90.0,
            Tier::Thorough => 1500.0,
        },
        workers: workers(),
    };
    let rep = search::<C08>(&cfg);
    let (code, newv) = conclude(&rep, seed);
    let mut explanation = format!(
        "{} generated histories over the real TrainLoader (driver hook): {} loader instances, each its own simulated process (own schedule, own OS entropy), over generated jsonl files with unique item ids; reference instance vs same configuration with other (num_threads, buffer_size), all ranks of a world, skip/limit splits, and crash (drop mid-epoch) + restart with fast_forward; streams compared batch by batch or by item id.",
        rep.runs, rep.stats.processes
    );
    for p in ["identical_streams_confirmed", "worlds_checked", "splits_checked", "resumes_checked_against_uninterrupted_stream"] {
        if rep.stats.probes.get(p).copied().unwrap_or(0) == 0 {
            explanation.push_str(&format!(" PROBE-STUCK-AT-ZERO: {p}."));
        }
    }
    write_evidence(EvidenceInput {
        property: "C08",
        tier,
        seed,
        level: "exploration",
        rule: "one case = one generated history: files (1-3 jsonl files, 3-14 lines each, optional malformed lines), pipeline configuration (pre-processing incl. whitespace/spelling corruption, switch, chain, substrings; task; post-processing), loader options (strategy, shuffle, sort, prefetch, batch limit/type, seed, epoch, skip, limit) and a list of variations (same config with other threads/buffer; world of 2-4 ranks; skip/limit split; crash + fast_forward restart, optionally distributed), every loader instance in its own simulated process; distinct = distinct hash of all per-process schedules and batch histories; non-trivial = some process had at least three tasks and four context switches",
        explanation,
        evaluations: rep.runs,
        distinct_nontrivial: rep.nontrivial_distinct,
        extra: serde_json::json!({
            "distinct_schedules": rep.distinct_schedules,
            "loader_instances": rep.stats.processes,
            "stopped_early_on_wall_clock": rep.stopped_early && rep.violations.is_empty(),
        }),
        samples: rep.samples.iter().take(3).cloned().collect(),
        assumptions: vec![
            "metamorphic oracle: streams of the implementation are compared with each other; a defect that changes every stream in the same way is invisible to it".into(),
            "order-sensitive clauses (rank positions, validation prefix, resumed order) are only judged when no line or item was dropped on the way (no malformed lines, no rejecting pre-processing)".into(),
            "shuttle's models of Mutex, SeqCst atomics and bounded mpsc channels are faithful to std".into(),
        ],
        wall_s: rep.wall_s,
        violations: newv,
        stats: &rep.stats,
        exhaustive: None,
    });
    out!(
        "C08 {}: {} histories ({} loader instances), {} distinct non-trivial, {:.1}s, violations={}",
        tier.name(), rep.runs, rep.stats.processes, rep.nontrivial_distinct, rep.wall_s, newv
    );
    code
}
