//! C20 — Dictionary::create counts exactly, keeps the top entries, for any
//! thread count, schedule and per-process hash order; save/load; get_closest.

use crate::common::*;
use serde::{Deserialize, Serialize};
use std::collections::BTreeMap;
use std::sync::{Arc, Mutex};
use text_utils::dictionary::{Dictionary, DictionaryDistanceMeasure};
use text_utils::edit::distance;
use text_utils::text::{clean, split_words};
use text_utils::unicode::{normalize, Character, CharString, Normalization};
use verif_rt::prng::{derive, Rng};
use verif_rt::{run_process, ProcSpec, Status};

#[derive(Serialize, Deserialize, Clone, Debug)]
pub struct C20 {
    pub run_seed: u64,
    pub mode: SMode,
    /// file contents (raw text, written as is)
    pub files: Vec<String>,
    pub max_size: Option<usize>,
    pub max_sequences: Option<usize>,
    /// thread counts to compare; each runs in its own simulated process
    pub threads: Vec<u8>,
    pub use_characters: bool,
    pub char_grams: u8,
    pub queries: Vec<String>,
    pub normalized_measure: bool,
    /// the path the dictionary is saved to already holds a (longer) file of an earlier run
    #[serde(default)]
    pub stale_output: bool,
}

#[derive(Clone, Debug, PartialEq)]
struct DictOut {
    items: BTreeMap<String, usize>,
    freq_sum: usize,
    len: usize,
    loaded_items: BTreeMap<String, usize>,
    loaded_sum: usize,
    closest: Vec<Option<(String, usize, f64)>>,
}

pub fn scratch_base() -> String {
    let shm = "/dev/shm";
    if std::fs::metadata(shm).map(|m| m.is_dir()).unwrap_or(false) {
        let d = format!("{shm}/verif-sim-{}", std::process::id());
        if std::fs::create_dir_all(&d).is_ok() {
            return d;
        }
    }
    let d = format!(
        "{}/tmp-files/{}",
        std::env::var("CARGO_TARGET_DIR").unwrap_or_else(|_| format!("{}/target", verif_dir())),
        std::process::id()
    );
    std::fs::create_dir_all(&d).expect("create scratch dir");
    d
}

pub struct ScratchDir(pub String);

impl ScratchDir {
    pub fn new(tag: &str, run_seed: u64) -> Self {
        static N: std::sync::atomic::AtomicU64 = std::sync::atomic::AtomicU64::new(0);
        let n = N.fetch_add(1, std::sync::atomic::Ordering::Relaxed);
        let d = format!("{}/{}-{:016x}-{}", scratch_base(), tag, run_seed, n);
        std::fs::create_dir_all(&d).expect("create run scratch dir");
        ScratchDir(d)
    }
    pub fn path(&self, name: &str) -> String {
        format!("{}/{}", self.0, name)
    }
}

impl Drop for ScratchDir {
    fn drop(&mut self) {
        let _ = std::fs::remove_dir_all(&self.0);
    }
}

const WORDS: &[&str] = &[
    "a", "b", "ab", "ba", "abc", "cab", "aa", "bb", "c", "A", "Ab", "ab-c", "a_b", "b.", "a,", "(ab)", "c's", "ä", "äb", "ß", "é",
    "ab1", "12", "-", "b-a", "ﬁ", "a\u{0301}", "x",
    // compatibility characters whose NFKC form contains a space (the token splits after normalisation)
    "a\u{00a8}b", "x\u{203e}", "\u{00b4}",
    // punctuation that file formats tend to give a meaning to (comments, separators, quotes, escapes)
    // pairs that differ only by Unicode normalisation / compatibility
    "fi", "\u{00c5}", "A\u{030a}", "\u{ff41}b", "x\u{00b2}", "x2",
    // words that begin with a grapheme-extending character (they attach to whatever precedes them,
    // a line break excepted) or end with a prepending one
    "\u{0301}", "\u{0308}a", "\u{200d}b", "a\u{0600}",
    "#a", "#", "a#b", ";b", "//", "%c", "\"a\"", "'b'", "a\\b", "@ab", "&", "*a*", "a=b", "a:b", "[c]", "{a}", "a|b", "~", "!", "?b",
];

fn gen_line(rng: &mut Rng) -> String {
    if rng.chance(0.03) {
        // a line that is not valid UTF-8 on disk
        return format!("ab {BAD}b a");
    }
    let n = rng.usize(0, 7);
    let mut s = String::new();
    if rng.chance(0.1) {
        s.push(' ');
    }
    for i in 0..n {
        if i > 0 {
            s.push_str(match rng.below(24) {
                0 | 1 => "  ",
                2 => "\t",
                3 => "\u{000b}",
                4 => "\u{000c}",
                5 => "\u{00a0}",
                6 => "\u{2003}",
                7 => "\u{3000}",
                _ => " ",
            });
        }
        s.push_str(*rng.pick(WORDS));
    }
    if rng.chance(0.1) {
        s.push(' ');
    }
    s
}

fn gen_file(rng: &mut Rng) -> String {
    let lines = match rng.below(8) {
        0 => 0,
        _ => rng.usize(1, 9),
    };
    let mut s = String::new();
    for i in 0..lines {
        s.push_str(&gen_line(rng));
        let last = i + 1 == lines;
        if !last || rng.chance(0.7) {
            s.push_str(if rng.chance(0.1) { "\r\n" } else { "\n" });
        }
    }
    s
}

/// independent sequential reference: tokens of the first `max_sequences` lines
/// marks a line that is written to the file with a byte that is not valid UTF-8
pub const BAD: char = '\u{e000}';

pub fn file_bytes(content: &str) -> Vec<u8> {
    let mut out = Vec::with_capacity(content.len());
    for c in content.chars() {
        if c == BAD {
            out.push(0xFF);
        } else {
            let mut b = [0u8; 4];
            out.extend_from_slice(c.encode_utf8(&mut b).as_bytes());
        }
    }
    out
}

pub fn files_with_bad_lines(files: &[String]) -> Vec<usize> {
    files.iter().enumerate().filter(|(_, f)| f.contains(BAD)).map(|(i, _)| i).collect()
}

fn reference_counts(sc: &C20) -> BTreeMap<String, usize> {
    reference_counts_with(sc, &vec![true; sc.files.len()])
}

/// The property does not say what an undecodable line means. Two readings are accepted per
/// file: only that line is skipped (`stop_file[i] == false`), or reading of that file ends there
/// (`true`, what the code does today). Lines of *other* files are never affected.
fn reference_counts_with(sc: &C20, stop_file: &[bool]) -> BTreeMap<String, usize> {
    let mut lines: Vec<String> = vec![];
    for (fi, f) in sc.files.iter().enumerate() {
        // BufRead::lines semantics: split on \n, strip one trailing \r
        let mut rest = f.as_str();
        while !rest.is_empty() {
            let (line, r) = match rest.find('\n') {
                Some(p) => (&rest[..p], &rest[p + 1..]),
                None => (rest, ""),
            };
            rest = r;
            if line.contains(BAD) {
                if stop_file[fi] {
                    break;
                }
                continue;
            }
            lines.push(line.strip_suffix('\r').unwrap_or(line).to_string());
        }
    }
    let take = sc.max_sequences.unwrap_or(usize::MAX);
    let mut counts: BTreeMap<String, usize> = BTreeMap::new();
    for line in lines.into_iter().take(take) {
        let line = normalize(&clean(&line, true), Normalization::NFKC, true);
        if sc.use_characters {
            for (word, _) in split_words(&line) {
                let mut chars: Vec<&str> = vec![];
                if sc.char_grams > 1 {
                    chars.push("<bow>");
                }
                chars.extend(CharString::split(word, true));
                if sc.char_grams > 1 {
                    chars.push("<eow>");
                }
                let g = sc.char_grams as usize;
                if chars.len() >= g {
                    for i in 0..=chars.len() - g {
                        let w = &chars[i..i + g];
                        let mid = w[g / 2];
                        let mid = Character { str: mid };
                        if mid.is_alphabetic() || mid.is_punctuation() {
                            *counts.entry(w.join(" ")).or_insert(0) += 1;
                        }
                    }
                }
            }
        } else {
            for (_, parts) in split_words(&line) {
                if let Some(parts) = parts {
                    for (p, _) in parts {
                        *counts.entry(p.to_string()).or_insert(0) += 1;
                    }
                }
            }
        }
    }
    counts
}

impl Scenario for C20 {
    const PROP: &'static str = "C20";
    const LABEL: u64 = 20;

    fn generate(run_seed: u64, _tier: Tier, _index: u64) -> Self {
        let mut rng = Rng::new(derive(run_seed, 1));
        let nfiles = rng.usize(1, 3);
        let mut files: Vec<String> = (0..nfiles).map(|_| gen_file(&mut rng)).collect();
        if rng.chance(0.1) {
            // the same content listed twice
            let dup = files[0].clone();
            files.push(dup);
        }
        let use_characters = rng.chance(0.35);
        let char_grams = if use_characters && rng.chance(0.5) { 3 } else { 1 };
        let mut sc = C20 {
            run_seed,
            mode: SMode::draw(&mut rng),
            files,
            max_size: None,
            max_sequences: None,
            threads: vec![],
            use_characters,
            char_grams,
            queries: vec![],
            normalized_measure: rng.chance(0.3),
            stale_output: false,
        };
        let v = reference_counts(&sc).len();
        sc.max_size = match rng.below(8) {
            0 | 1 => None,
            2 => Some(0),
            3 => Some(1),
            4 => Some(v),
            5 => Some(v + rng.usize(1, 5)),
            _ => Some(rng.usize(0, v.max(1))),
        };
        let total_lines: usize = sc.files.iter().map(|f| f.lines().count()).sum();
        sc.max_sequences = match rng.below(6) {
            0 | 1 | 2 => None,
            3 => Some(0),
            _ => Some(rng.usize(0, total_lines + 1)),
        };
        let mut ts: Vec<u8> = vec![0, 1, 2, 3, 4, if rng.chance(0.5) { 8 } else { 16 }];
        rng.shuffle(&mut ts);
        ts.truncate(rng.usize(2, 3));
        sc.threads = ts;
        let nq = rng.usize(0, 3);
        for _ in 0..nq {
            let q = match rng.below(4) {
                0 => String::new(),
                1 => rng.pick(WORDS).to_string(),
                _ => {
                    let l = rng.usize(1, 4);
                    (0..l).map(|_| *rng.pick(&['a', 'b', 'c', 'ä', 'x'])).collect()
                }
            };
            sc.queries.push(q);
        }
        sc.stale_output = rng.chance(0.3);
        sc
    }

    fn run_seed(&self) -> u64 {
        self.run_seed
    }

    fn size(&self) -> u64 {
        self.files.iter().map(|f| f.len() as u64).sum::<u64>()
            + self.files.len() as u64
            + self.threads.len() as u64
            + self.queries.len() as u64
            + self.max_size.is_some() as u64
            + self.max_sequences.is_some() as u64
            + self.use_characters as u64 * 2
    }

    fn shrink(&self) -> Vec<Self> {
        let mut v = vec![];
        if self.stale_output {
            let mut c = self.clone();
            c.stale_output = false;
            v.push(c);
        }
        if self.files.len() > 1 {
            for i in 0..self.files.len() {
                let mut c = self.clone();
                c.files.remove(i);
                v.push(c);
            }
        }
        // drop lines
        for (fi, f) in self.files.iter().enumerate() {
            let lines: Vec<&str> = f.split_inclusive('\n').collect();
            if lines.len() > 1 {
                let mut c = self.clone();
                c.files[fi] = lines[..lines.len() / 2].concat();
                v.push(c);
                let mut c = self.clone();
                c.files[fi] = lines[lines.len() / 2..].concat();
                v.push(c);
            }
            for li in 0..lines.len().min(12) {
                let mut c = self.clone();
                let mut l = lines.clone();
                l.remove(li);
                c.files[fi] = l.concat();
                v.push(c);
            }
            // drop words of single lines
            for (li, l) in lines.iter().enumerate().take(6) {
                let words: Vec<&str> = l.split(' ').collect();
                if words.len() > 1 {
                    for wi in 0..words.len() {
                        let mut w = words.clone();
                        w.remove(wi);
                        let mut ls: Vec<String> = lines.iter().map(|s| s.to_string()).collect();
                        ls[li] = w.join(" ");
                        if !ls[li].ends_with('\n') && l.ends_with('\n') {
                            ls[li].push('\n');
                        }
                        let mut c = self.clone();
                        c.files[fi] = ls.concat();
                        v.push(c);
                    }
                }
            }
        }
        if !self.queries.is_empty() {
            let mut c = self.clone();
            c.queries.clear();
            v.push(c);
            if self.queries.len() > 1 {
                for i in 0..self.queries.len() {
                    let mut c = self.clone();
                    c.queries.remove(i);
                    v.push(c);
                }
            }
        }
        if self.threads.len() > 1 {
            for i in 0..self.threads.len() {
                let mut c = self.clone();
                c.threads.remove(i);
                v.push(c);
            }
        }
        if self.max_sequences.is_some() {
            let mut c = self.clone();
            c.max_sequences = None;
            v.push(c);
        }
        if self.use_characters {
            let mut c = self.clone();
            c.use_characters = false;
            c.char_grams = 1;
            v.push(c);
        }
        if self.mode != SMode::Uniform {
            let mut c = self.clone();
            c.mode = SMode::Uniform;
            v.push(c);
        }
        v
    }

    fn finding_signature(&self, v: &Violation) -> String {
        format!("{}/max_size={}", v.class, if self.max_size.is_none() { "none" } else { "some" })
    }

    fn execute(&self, plan: &Plan) -> Outcome {
        let dir = ScratchDir::new("c20", self.run_seed);
        let mut paths = vec![];
        for (i, f) in self.files.iter().enumerate() {
            let p = dir.path(&format!("f{i}.txt"));
            std::fs::write(&p, file_bytes(f)).expect("write corpus file");
            paths.push(p);
        }
        let mut stats = RunStats::default();
        let mut traces = vec![];
        let mut outs: Vec<(u8, Result<DictOut, String>, Status)> = vec![];
        let mut hh = verif_rt::prng::Fnv::default();
        let mut lh = verif_rt::prng::Fnv::default();
        let mut diverged = false;
        let mut nontrivial = false;
        for (pi, t) in self.threads.iter().enumerate() {
            let mut spec = ProcSpec::new(
                self.mode.to_mode(),
                derive(self.run_seed, 100 + pi as u64),
                derive(self.run_seed, 200 + pi as u64),
            );
            spec.step_cap = 100_000;
            if let Plan::Replay { traces, strict } = plan {
                spec = spec.replaying(traces.get(pi).cloned().unwrap_or_default(), *strict);
            }
            let slot: Arc<Mutex<Option<Result<DictOut, String>>>> = Arc::new(Mutex::new(None));
            let slot2 = slot.clone();
            let sc = self.clone();
            let paths2 = paths.clone();
            let save_path = dir.path(&format!("dict{pi}.txt"));
            if self.stale_output {
                let stale: String = (0..300).map(|i| format!("stale{i}\t7\n")).collect();
                std::fs::write(&save_path, stale).expect("write stale dictionary file");
                stats.fault("output_path_holds_a_longer_file_of_an_earlier_run");
            }
            let t = *t;
            let r = run_process(&spec, move || {
                let res = Dictionary::create(
                    &paths2,
                    sc.max_size,
                    sc.max_sequences,
                    t,
                    sc.use_characters,
                    sc.char_grams,
                    false,
                );
                let out = match res {
                    Err(e) => Err(format!("{e:#}")),
                    Ok(d) => {
                        let items: BTreeMap<String, usize> = d.items().map(|(k, v)| (k.clone(), *v)).collect();
                        let mut o = DictOut {
                            items,
                            freq_sum: d.freq_sum,
                            len: d.len(),
                            loaded_items: BTreeMap::new(),
                            loaded_sum: 0,
                            closest: vec![],
                        };
                        match d.save(&save_path).and_then(|_| Dictionary::load(&save_path)) {
                            Ok(l) => {
                                o.loaded_items = l.items().map(|(k, v)| (k.clone(), *v)).collect();
                                o.loaded_sum = l.freq_sum;
                                let m = if sc.normalized_measure {
                                    DictionaryDistanceMeasure::NormalizedEditDistance
                                } else {
                                    DictionaryDistanceMeasure::EditDistance
                                };
                                for q in &sc.queries {
                                    o.closest.push(d.get_closest(q, m.clone()));
                                }
                                Ok(o)
                            }
                            Err(e) => Err(format!("save/load failed: {e:#}")),
                        }
                    }
                };
                *slot2.lock().unwrap() = Some(out);
            });
            stats.absorb_proc(&r);
            stats.probe_max("max_decisions_in_one_run", r.decisions);
            stats.probe("os_entropy_requests_served_from_the_run_seed", r.entropy_calls);
            stats.fault("fresh_hash_keys_per_process");
            stats.fault(&format!("num_threads_{}", t));
            hh.u64(r.history_hash);
            for x in &r.trace {
                hh.u64(*x as u64);
            }
            lh.u64(r.log_hash);
            diverged |= r.status == Status::ReplayDiverged;
            nontrivial |= r.max_tasks >= 3 && r.switches >= 3;
            traces.push(r.trace.clone());
            let o = slot.lock().unwrap().take();
            let o = match (&r.status, o) {
                (Status::Completed, Some(o)) => o,
                (s, _) => Err(format!("status {s:?}; threads alive {:?}", r.live_threads().iter().map(|t| &t.name).collect::<Vec<_>>())),
            };
            outs.push((t, o, r.status.clone()));
        }
        stats.param("files", self.files.len() as i64);
        stats.param("max_size_is_none", self.max_size.is_none() as i64);
        let violation = if diverged { None } else { self.judge(&outs, &mut stats) };
        Outcome {
            violation,
            nontrivial,
            diverged,
            traces,
            log_hash: lh.0,
            history_hash: hh.0,
            stats,
        }
    }
}

impl C20 {
    fn judge(&self, outs: &[(u8, Result<DictOut, String>, Status)], stats: &mut RunStats) -> Option<Violation> {
        let bad = files_with_bad_lines(&self.files);
        if bad.is_empty() {
            return self.judge_against(outs, &reference_counts(self), stats);
        }
        stats.probe("runs_with_undecodable_lines", 1);
        // every combination of the two accepted readings for the files that have such a line
        let mut first = None;
        for mask in 0..(1u32 << bad.len().min(4)) {
            let mut stop = vec![true; self.files.len()];
            for (bit, fi) in bad.iter().enumerate().take(4) {
                stop[*fi] = mask & (1 << bit) == 0;
            }
            let mut tmp = RunStats::default();
            match self.judge_against(outs, &reference_counts_with(self, &stop), &mut tmp) {
                None => {
                    stats.merge(&tmp, &[]);
                    return None;
                }
                Some(v) => {
                    if first.is_none() {
                        first = Some(v);
                    }
                }
            }
        }
        first.map(|mut v| {
            v.detail = format!("(with undecodable lines; no accepted reading of them explains the result) {}", v.detail);
            v
        })
    }

    fn judge_against(
        &self,
        outs: &[(u8, Result<DictOut, String>, Status)],
        reference: &BTreeMap<String, usize>,
        stats: &mut RunStats,
    ) -> Option<Violation> {
        let v = |class: &str, detail: String| Some(Violation { class: class.into(), detail });
        let vsize = reference.len();
        let want_len = self.max_size.map(|m| m.min(vsize)).unwrap_or(vsize);
        stats.param("vocabulary", vsize as i64);
        for (t, o, status) in outs {
            let o = match o {
                Ok(o) => o,
                Err(e) => {
                    let class = match status {
                        Status::MainPanic(_) => "create:panic",
                        Status::Completed => "create:error",
                        Status::Wedged(_) => "no-termination:WEDGED",
                        Status::Livelock => "no-termination:LIVELOCK",
                        _ => "create:abnormal-end",
                    };
                    return v(class, format!("num_threads={t} max_size={:?} max_sequences={:?}: {e}", self.max_size, self.max_sequences));
                }
            };
            if o.len != o.items.len() {
                return v("len:inconsistent", format!("len()={} but {} items", o.len, o.items.len()));
            }
            for (k, c) in &o.items {
                match reference.get(k) {
                    Some(r) if r == c => {}
                    Some(r) => return v("counts:wrong", format!("num_threads={t}: entry {k:?} has count {c}, reference {r}")),
                    None => return v("counts:spurious-entry", format!("num_threads={t}: entry {k:?} (count {c}) does not occur in the reference")),
                }
            }
            if o.items.len() != want_len {
                return v("topk:size", format!("num_threads={t}: {} entries, expected min(max_size={:?}, |V|={vsize}) = {want_len}", o.items.len(), self.max_size));
            }
            let min_kept = o.items.values().min().copied();
            let max_omitted = reference.iter().filter(|(k, _)| !o.items.contains_key(*k)).map(|(_, c)| *c).max();
            if let (Some(a), Some(b)) = (min_kept, max_omitted) {
                if a < b {
                    return v("topk:order", format!("num_threads={t}: kept an entry with frequency {a} but omitted one with {b}"));
                }
                if a == b {
                    stats.probe("runs_where_topk_cut_goes_through_a_frequency_tie", 1);
                }
            }
            let sum: usize = o.items.values().sum();
            if sum != o.freq_sum {
                return v("freq_sum", format!("num_threads={t}: freq_sum={} but entries sum to {sum}", o.freq_sum));
            }
            if o.loaded_items != o.items || o.loaded_sum != o.freq_sum {
                return v("saveload:differ", format!("num_threads={t}: load(save(d)) has {} items / sum {}, d has {} / {}", o.loaded_items.len(), o.loaded_sum, o.items.len(), o.freq_sum));
            }
            for (q, c) in self.queries.iter().zip(&o.closest) {
                if o.items.is_empty() {
                    if c.is_some() {
                        return v("closest:on-empty", format!("get_closest({q:?}) on an empty dictionary returned {c:?}"));
                    }
                    continue;
                }
                let Some((term, freq, rel)) = c else {
                    return v("closest:none", format!("get_closest({q:?}) returned None on a non-empty dictionary"));
                };
                let nq = normalize(q, Normalization::NFKC, true);
                let d = |k: &str| distance(&nq, k, true, false, false, self.normalized_measure);
                let best = o.items.keys().map(|k| d(k)).fold(f64::INFINITY, f64::min);
                match o.items.get(term) {
                    Some(f) if f == freq => {}
                    other => return v("closest:not-an-entry", format!("get_closest({q:?}) returned ({term:?},{freq}) but the dictionary has {other:?}")),
                }
                if d(term) != best {
                    return v("closest:not-minimal", format!("get_closest({q:?}) returned {term:?} at distance {} but the minimum is {best}", d(term)));
                }
                let ties: Vec<(&String, &usize)> = o.items.iter().filter(|(k, _)| d(k) == best).collect();
                let best_freq = ties.iter().map(|(_, f)| **f).max().unwrap();
                if *freq != best_freq {
                    return v("closest:not-most-frequent", format!("get_closest({q:?}) returned {term:?} (freq {freq}) but an entry at the same distance has frequency {best_freq}"));
                }
                if ties.iter().filter(|(_, f)| **f == best_freq).count() > 1 {
                    stats.probe("closest_queries_with_distance_and_frequency_tie", 1);
                }
                let want_rel = *freq as f64 / o.freq_sum as f64;
                if (rel - want_rel).abs() > 1e-12 {
                    return v("closest:relative-frequency", format!("relative frequency {rel} != {want_rel}"));
                }
                stats.probe("closest_queries_checked", 1);
            }
        }
        // identical for every thread count / schedule / hash order
        let first = outs[0].1.as_ref().unwrap();
        for (t, o, _) in &outs[1..] {
            let o = o.as_ref().unwrap();
            if o.items != first.items || o.freq_sum != first.freq_sum {
                return v(
                    "threads:differ",
                    format!("result for num_threads={} differs from num_threads={t}: {} vs {} entries", outs[0].0, first.items.len(), o.items.len()),
                );
            }
        }
        if self.max_size.is_none() {
            stats.probe("runs_with_max_size_none", 1);
        }
        if self.max_sequences.map(|m| m > 0).unwrap_or(false) {
            stats.probe("runs_with_max_sequences_cut", 1);
        }
        None
    }
}

pub fn check(tier: Tier) -> i32 {
    let seed = base_seed();
    let cfg = SearchCfg {
        tier,
        base_seed: seed,
        runs: match tier {
            Tier::Quick => env_u64("VERIF_RUNS", 12_000),
            Tier::Thorough => env_u64("VERIF_RUNS", 400_000),
        },
        max_wall_s: match tier {
            Tier::Quick => 90.0,
            Tier::Thorough => 1200.0,
        },
        workers: workers(),
    };
    let rep = search::<C20>(&cfg);
    let (code, newv) = conclude(&rep, seed);
    let mut explanation = format!(
        "{} generated corpora/option sets, each created with 2-3 different num_threads values in separate simulated processes ({} processes) under seeded schedules and per-process hash keys, compared with an independent sequential count / top-k / argmin reference, with each other, and through save->load.",
        rep.runs, rep.stats.processes
    );
    for p in ["runs_where_topk_cut_goes_through_a_frequency_tie", "closest_queries_with_distance_and_frequency_tie", "runs_with_max_size_none"] {
        if rep.stats.probes.get(p).copied().unwrap_or(0) == 0 {
            explanation.push_str(&format!(" PROBE-STUCK-AT-ZERO: {p}."));
        }
    }
    write_evidence(EvidenceInput {
        property: "C20",
        tier,
        seed,
        level: "exploration",
        rule: "one case = one generated corpus (1-3 files) + options (max_size, max_sequences, words / char 1-grams / char 3-grams, queries) created under 2-3 thread counts, each in its own simulated process with its own schedule and hash keys; distinct = distinct hash of the per-process schedules and thread start/exit histories; non-trivial = some process had at least three tasks and three context switches",
        explanation,
        evaluations: rep.runs,
        distinct_nontrivial: rep.nontrivial_distinct,
        extra: serde_json::json!({
            "distinct_schedules": rep.distinct_schedules,
            "stopped_early_on_wall_clock": rep.stopped_early && rep.violations.is_empty(),
        }),
        samples: rep.samples.clone(),
        assumptions: vec![
            "the library's pure text functions clean/normalize/split_words/CS::split/is_alphabetic/is_punctuation and edit::distance are used by the reference to obtain tokens and distances (they are the subject of C10-C12, not of C20)".into(),
            "shuttle's models of Mutex and bounded mpsc channels are faithful to std".into(),
        ],
        wall_s: rep.wall_s,
        violations: newv,
        stats: &rep.stats,
        exhaustive: None,
    });
    out!(
        "C20 {}: {} runs ({} simulated processes), {} distinct non-trivial, {:.1}s, violations={}",
        tier.name(), rep.runs, rep.stats.processes, rep.nontrivial_distinct, rep.wall_s, newv
    );
    code
}
