//! Shared machinery: seeded search over scenarios on all cores, minimisation,
//! replay files, known findings, evidence.

use serde::{de::DeserializeOwned, Deserialize, Serialize};
use serde_json::{json, Value};
use std::collections::{BTreeMap, HashSet};
use std::time::Instant;
use verif_rt::prng::{derive, Rng};
use verif_rt::rt::Mode;

#[derive(Clone, Copy, Debug, PartialEq, Eq)]
pub enum Tier {
    Quick,
    Thorough,
}

impl Tier {
    pub fn name(&self) -> &'static str {
        match self {
            Tier::Quick => "quick",
            Tier::Thorough => "thorough",
        }
    }
}

/// serialisable scheduler mode
#[derive(Clone, Debug, Serialize, Deserialize, PartialEq)]
pub enum SMode {
    Uniform,
    Sticky(u32),
    Pct(u32),
}

impl SMode {
    pub fn to_mode(&self) -> Mode {
        match self {
            SMode::Uniform => Mode::Uniform,
            SMode::Sticky(p) => Mode::Sticky(*p),
            SMode::Pct(d) => Mode::Pct(*d),
        }
    }
    pub fn draw(rng: &mut Rng) -> SMode {
        match rng.below(10) {
            0..=3 => SMode::Uniform,
            4..=7 => SMode::Sticky(*rng.pick(&[600, 800, 900, 950, 980])),
            _ => SMode::Pct(rng.range(1, 5) as u32),
        }
    }
}

/// How the schedule of one scenario execution is decided.
#[derive(Clone, Debug, Serialize, Deserialize)]
pub enum Plan {
    /// fresh: every process draws its decisions from streams split off the run seed
    Seeded,
    /// follow recorded traces (one per simulated process, in process order)
    Replay { traces: Vec<Vec<u16>>, strict: bool },
}

#[derive(Clone, Debug, Default, Serialize, Deserialize)]
pub struct RunStats {
    pub processes: u64,
    pub decisions: u64,
    pub switches: u64,
    pub ticks: u64,
    pub max_tasks: u32,
    pub faults: BTreeMap<String, u64>,
    pub probes: BTreeMap<String, u64>,
    pub params: BTreeMap<String, (i64, i64)>,
}

impl RunStats {
    pub fn fault(&mut self, k: &str) {
        *self.faults.entry(k.to_string()).or_insert(0) += 1;
    }
    pub fn probe(&mut self, k: &str, n: u64) {
        if n > 0 {
            *self.probes.entry(k.to_string()).or_insert(0) += n;
        }
    }
    pub fn probe_max(&mut self, k: &str, n: u64) {
        let e = self.probes.entry(k.to_string()).or_insert(0);
        *e = (*e).max(n);
    }
    pub fn param(&mut self, k: &str, v: i64) {
        let e = self.params.entry(k.to_string()).or_insert((v, v));
        e.0 = e.0.min(v);
        e.1 = e.1.max(v);
    }
    pub fn absorb_proc(&mut self, r: &verif_rt::ProcResult) {
        self.processes += 1;
        self.decisions += r.decisions;
        self.switches += r.switches;
        self.ticks += r.now;
        self.max_tasks = self.max_tasks.max(r.max_tasks);
    }
    pub fn merge(&mut self, o: &RunStats, max_keys: &[&str]) {
        self.processes += o.processes;
        self.decisions += o.decisions;
        self.switches += o.switches;
        self.ticks += o.ticks;
        self.max_tasks = self.max_tasks.max(o.max_tasks);
        for (k, v) in &o.faults {
            *self.faults.entry(k.clone()).or_insert(0) += v;
        }
        for (k, v) in &o.probes {
            let e = self.probes.entry(k.clone()).or_insert(0);
            if max_keys.contains(&k.as_str()) || k.starts_with("max_") {
                *e = (*e).max(*v);
            } else {
                *e += v;
            }
        }
        for (k, v) in &o.params {
            let e = self.params.entry(k.clone()).or_insert(*v);
            e.0 = e.0.min(v.0);
            e.1 = e.1.max(v.1);
        }
    }
}

#[derive(Clone, Debug, Serialize, Deserialize, PartialEq)]
pub struct Violation {
    /// violation class: minimisation keeps the class fixed
    pub class: String,
    pub detail: String,
}

#[derive(Clone, Debug, Serialize, Deserialize)]
pub struct Outcome {
    pub violation: Option<Violation>,
    pub traces: Vec<Vec<u16>>,
    pub log_hash: u64,
    pub history_hash: u64,
    /// execution had at least two live tasks and at least one context switch between them
    pub nontrivial: bool,
    /// strict replay could not follow its trace
    pub diverged: bool,
    pub stats: RunStats,
}

pub trait Scenario: Serialize + DeserializeOwned + Clone + Send + Sync + 'static {
    const PROP: &'static str;
    const LABEL: u64;
    fn generate(run_seed: u64, tier: Tier, index: u64) -> Self;
    fn run_seed(&self) -> u64;
    fn execute(&self, plan: &Plan) -> Outcome;
    /// simpler variants of this scenario, most aggressive first
    fn shrink(&self) -> Vec<Self>;
    /// signature used to match a known finding (specific input / call site / history)
    fn finding_signature(&self, v: &Violation) -> String {
        v.class.clone()
    }
    fn size(&self) -> u64;
}

// ------------------------------------------------------------------ known findings

#[derive(Clone, Debug)]
pub struct KnownFinding {
    pub property: String,
    pub signature: String,
    pub text: String,
}

pub fn verif_dir() -> String {
    std::env::var("VERIF_DIR").unwrap_or_else(|_| "/verif".to_string())
}

/// where evidence/ and replays/ go (the sensitivity self-test redirects it)
pub fn out_dir() -> String {
    std::env::var("VERIF_OUT").unwrap_or_else(|_| verif_dir())
}

/// Lines of /verif/KNOWN_FINDINGS.txt:
///   `finding: property=<id> signature=<sig> <what fails>`  – suppresses exactly that signature
///   `fixed: property=<id> <commit> <what failed>`          – suppresses nothing
pub fn load_known_findings(prop: &str) -> Vec<KnownFinding> {
    let path = format!("{}/KNOWN_FINDINGS.txt", verif_dir());
    let mut out = vec![];
    if let Ok(s) = std::fs::read_to_string(path) {
        for line in s.lines() {
            let line = line.trim();
            if let Some(rest) = line.strip_prefix("finding:") {
                let rest = rest.trim();
                let mut property = String::new();
                let mut signature = String::new();
                let mut text = vec![];
                for tok in rest.split_whitespace() {
                    if let Some(p) = tok.strip_prefix("property=") {
                        property = p.to_string();
                    } else if let Some(s) = tok.strip_prefix("signature=") {
                        signature = s.to_string();
                    } else {
                        text.push(tok);
                    }
                }
                if property == prop && !signature.is_empty() {
                    out.push(KnownFinding { property, signature, text: text.join(" ") });
                }
            }
        }
    }
    out
}


// ------------------------------------------------------------------ watchdog
//
// A step of a simulated task that never reaches a scheduling point (an endless
// loop in plain sequential code) cannot be bounded by the step cap. Every
// scenario execution therefore runs under a wall-clock watchdog; when it
// fires the action (report + exit) runs on the watchdog thread.

pub mod watchdog {
    use std::sync::{Mutex, Once};
    use std::time::{Duration, Instant};

    type Action = Box<dyn FnOnce() + Send>;
    static SLOT: Mutex<Option<(Instant, Action)>> = Mutex::new(None);
    static START: Once = Once::new();

    pub fn hang_limit_s() -> f64 {
        super::env_u64("VERIF_HANG_S", 90) as f64
    }

    pub fn arm(limit_s: f64, action: Action) {
        START.call_once(|| {
            std::thread::spawn(|| loop {
                std::thread::sleep(Duration::from_millis(100));
                let fire = {
                    let mut g = SLOT.lock().unwrap();
                    match g.as_ref() {
                        Some((deadline, _)) if Instant::now() >= *deadline => g.take().map(|x| x.1),
                        _ => None,
                    }
                };
                if let Some(f) = fire {
                    f();
                }
            });
        });
        *SLOT.lock().unwrap() = Some((Instant::now() + Duration::from_secs_f64(limit_s), action));
    }

    pub fn disarm() {
        *SLOT.lock().unwrap() = None;
    }
}

pub const HANG_CLASS: &str = "no-termination:HANG";

/// replay file for a scenario whose execution never came back
pub fn write_hang_replay<S: Scenario>(sc: &S, base_seed: u64, index: u64, limit_s: f64) -> String {
    let rf = ReplayFile {
        property: S::PROP.to_string(),
        run_seed: sc.run_seed(),
        base_seed,
        index,
        class: HANG_CLASS.to_string(),
        detail: format!("the scenario did not finish within {limit_s} s of wall-clock time although the step cap bounds the number of scheduling points: some task loops for ever without reaching a synchronisation point"),
        log_hash: String::new(),
        scenario: serde_json::to_value(sc).unwrap(),
        traces: vec![],
        minimised: false,
        original_size: sc.size(),
        original_trace_len: 0,
        minimised_size: sc.size(),
        minimised_trace_len: 0,
        minimise_steps: 0,
    };
    let dir = format!("{}/replays", out_dir());
    let _ = std::fs::create_dir_all(&dir);
    let path = format!("{}/{}-{}-{}.json", dir, S::PROP, base_seed, index);
    std::fs::write(&path, serde_json::to_string_pretty(&rf).unwrap()).expect("write replay file");
    path
}

// ------------------------------------------------------------------ replay files

#[derive(Serialize, Deserialize, Clone, Debug)]
pub struct ReplayFile {
    pub property: String,
    pub run_seed: u64,
    pub base_seed: u64,
    pub index: u64,
    pub class: String,
    pub detail: String,
    pub log_hash: String,
    pub scenario: Value,
    pub traces: Vec<Vec<u16>>,
    pub minimised: bool,
    pub original_size: u64,
    pub original_trace_len: u64,
    pub minimised_size: u64,
    pub minimised_trace_len: u64,
    pub minimise_steps: u64,
}

pub fn write_replay<S: Scenario>(
    sc: &S,
    out: &Outcome,
    base_seed: u64,
    index: u64,
    min: &MinStats,
) -> String {
    let v = out.violation.as_ref().expect("violation");
    let rf = ReplayFile {
        property: S::PROP.to_string(),
        run_seed: sc.run_seed(),
        base_seed,
        index,
        class: v.class.clone(),
        detail: v.detail.clone(),
        log_hash: format!("{:016x}", out.log_hash),
        scenario: serde_json::to_value(sc).unwrap(),
        traces: out.traces.clone(),
        minimised: min.steps > 0,
        original_size: min.orig_size,
        original_trace_len: min.orig_trace,
        minimised_size: sc.size(),
        minimised_trace_len: out.traces.iter().map(|t| t.len() as u64).sum(),
        minimise_steps: min.steps,
    };
    let dir = format!("{}/replays", out_dir());
    let _ = std::fs::create_dir_all(&dir);
    let path = format!("{}/{}-{}-{}.json", dir, S::PROP, base_seed, index);
    std::fs::write(&path, serde_json::to_string_pretty(&rf).unwrap()).expect("write replay file");
    path
}

/// Re-execute a replay file strictly. Exit code semantics of the caller:
/// reproduced => 1 (+VIOLATION line), anything else => 2.
pub fn replay_file<S: Scenario>(rf: &ReplayFile, path: &str) -> i32 {
    let sc: S = match serde_json::from_value(rf.scenario.clone()) {
        Ok(s) => s,
        Err(e) => {
            out!("HARNESS-ERROR: cannot parse scenario of {path}: {e}");
            return 2;
        }
    };
    {
        let (prop, path2, recorded) = (rf.property.clone(), path.to_string(), rf.class.clone());
        let limit = watchdog::hang_limit_s();
        watchdog::arm(
            limit,
            Box::new(move || {
                if recorded == HANG_CLASS {
                    out!("replay reproduced: class={HANG_CLASS} (no result within {limit} s)");
                    out!("VIOLATION property={prop} replay={path2}");
                    std::process::exit(1);
                }
                out!("HARNESS-ERROR: replay of {path2} hangs (recorded class={recorded})");
                std::process::exit(2);
            }),
        );
    }
    let out = if rf.class == HANG_CLASS {
        sc.execute(&Plan::Seeded)
    } else {
        sc.execute(&Plan::Replay { traces: rf.traces.clone(), strict: true })
    };
    watchdog::disarm();
    if rf.class == HANG_CLASS {
        return match &out.violation {
            Some(v) => {
                out!("replay of {path}: the recorded hang is gone, but the scenario violates class={}: {}", v.class, v.detail);
                out!("VIOLATION property={} replay={}", rf.property, path);
                1
            }
            None => {
                out!("replay of {path}: finished without violation on the current tree (recorded class={HANG_CLASS})");
                0
            }
        };
    }
    let lh = format!("{:016x}", out.log_hash);
    match &out.violation {
        Some(v) if v.class == rf.class && lh == rf.log_hash && !out.diverged => {
            out!("replay reproduced: class={} log_hash={} detail={}", v.class, lh, v.detail);
            out!("VIOLATION property={} replay={}", rf.property, path);
            1
        }
        Some(v) => {
            out!(
                "HARNESS-ERROR: replay of {path} gave class={} log_hash={} diverged={} (recorded class={} log_hash={})",
                v.class, lh, out.diverged, rf.class, rf.log_hash
            );
            2
        }
        None => {
            out!(
                "replay of {path}: no violation under strict replay (recorded class={}); log_hash={} diverged={}",
                rf.class, lh, out.diverged
            );
            if out.diverged {
                // the tree differs from the one the file was recorded on: the recorded
                // schedule cannot be followed exactly. Try to follow it as far as possible.
                let t = sc.execute(&Plan::Replay { traces: rf.traces.clone(), strict: false });
                if let Some(v) = &t.violation {
                    if v.class == rf.class {
                        out!("tolerant replay (schedule followed while possible) reproduces class={}: {}", v.class, v.detail);
                        out!("VIOLATION property={} replay={}", rf.property, path);
                        return 1;
                    }
                }
                out!("tolerant replay: no violation of the recorded class on the current tree");
            }
            0
        }
    }
}

// ------------------------------------------------------------------ minimisation

#[derive(Clone, Debug, Default)]
pub struct MinStats {
    pub steps: u64,
    pub orig_size: u64,
    pub orig_trace: u64,
}

fn total_len(t: &[Vec<u16>]) -> usize {
    t.iter().map(|x| x.len()).sum()
}

/// Shrink scenario, then schedule, while the same violation class persists.
pub fn minimise<S: Scenario>(sc: &S, out: &Outcome, budget_ms: u64) -> (S, Outcome, MinStats) {
    minimise_with(sc, out, budget_ms, &|c: &S, p: &Plan| c.execute(p))
}

/// One execution in a fresh OS process (`sim --exec-one`): nothing of the program under test
/// (statics, thread-locals of the OS thread) is carried over from earlier executions.
pub fn execute_isolated<S: Scenario>(sc: &S, plan: &Plan) -> Outcome {
    use std::sync::atomic::{AtomicU64, Ordering};
    static N: AtomicU64 = AtomicU64::new(0);
    let none = Outcome { violation: None, traces: vec![], log_hash: 0, history_hash: 0, nontrivial: false, diverged: true, stats: RunStats::default() };
    let file = format!("{}/exec-{}.json", crate::c20::scratch_base(), N.fetch_add(1, Ordering::SeqCst));
    let req = json!({ "scenario": serde_json::to_value(sc).unwrap(), "plan": serde_json::to_value(plan).unwrap() });
    if std::fs::write(&file, req.to_string()).is_err() {
        return none;
    }
    let exe = std::env::current_exe().expect("current exe");
    let st = std::process::Command::new(exe).arg("--exec-one").arg(S::PROP).arg(&file).stdin(std::process::Stdio::null()).status();
    let res = std::fs::read_to_string(format!("{file}.out")).ok().and_then(|t| serde_json::from_str::<Outcome>(&t).ok());
    let _ = std::fs::remove_file(&file);
    let _ = std::fs::remove_file(format!("{file}.out"));
    match (st, res) {
        (Ok(st), Some(o)) if st.success() => o,
        _ => none,
    }
}

/// `--exec-one <prop> <file>`
pub fn exec_one_main<S: Scenario>(file: &str) -> i32 {
    let Ok(text) = std::fs::read_to_string(file) else { return 2 };
    let Ok(v) = serde_json::from_str::<Value>(&text) else { return 2 };
    let (Ok(sc), Ok(plan)) = (serde_json::from_value::<S>(v["scenario"].clone()), serde_json::from_value::<Plan>(v["plan"].clone())) else { return 2 };
    watchdog::arm(watchdog::hang_limit_s(), Box::new(|| std::process::exit(3)));
    let out = sc.execute(&plan);
    watchdog::disarm();
    if std::fs::write(format!("{file}.out"), serde_json::to_string(&out).unwrap()).is_err() {
        return 2;
    }
    0
}

pub fn minimise_with<S: Scenario>(sc: &S, out: &Outcome, budget_ms: u64, exec: &dyn Fn(&S, &Plan) -> Outcome) -> (S, Outcome, MinStats) {
    let class = out.violation.as_ref().unwrap().class.clone();
    let start = Instant::now();
    let mut best = sc.clone();
    let mut best_out = out.clone();
    let mut ms = MinStats {
        steps: 0,
        orig_size: sc.size(),
        orig_trace: total_len(&out.traces) as u64,
    };
    let same = |o: &Outcome| o.violation.as_ref().map(|v| v.class == class).unwrap_or(false);
    // A step-cap violation ("tasks keep running without finishing") is only meaningful under a
    // fair scheduler: a program that busy-waits can be starved by an edited trace ("let the
    // previous task continue" for ever). For this class candidates are only re-searched with
    // fresh seeded (fair) schedules and the schedule itself is not shrunk.
    let fair_only = class.contains("LIVELOCK");
    // 1. scenario shrinking: each candidate re-searched with a few schedules
    let mut progress = true;
    while progress && (start.elapsed().as_millis() as u64) < budget_ms {
        progress = false;
        for cand in best.shrink() {
            if (start.elapsed().as_millis() as u64) >= budget_ms {
                break;
            }
            let mut found = None;
            // first try to carry the schedule over (tolerant replay), then fresh schedules
            let o = if fair_only {
                exec(&cand, &Plan::Seeded)
            } else {
                exec(&cand, &Plan::Replay { traces: best_out.traces.clone(), strict: false })
            };
            if same(&o) {
                found = Some(o);
            } else if !fair_only {
                let o = exec(&cand, &Plan::Seeded);
                if same(&o) {
                    found = Some(o);
                }
            }
            if let Some(o) = found {
                best = cand;
                best_out = o;
                ms.steps += 1;
                progress = true;
                break;
            }
        }
    }
    // 2. schedule shrinking: remove context switches ("let the previous task continue")
    let mut chunk = if fair_only { 0usize } else { 64usize };
    while chunk >= 1 && (start.elapsed().as_millis() as u64) < budget_ms {
        let mut improved = false;
        let traces = best_out.traces.clone();
        'outer: for (p, tr) in traces.iter().enumerate() {
            let mut i = 1;
            while i < tr.len() {
                if (start.elapsed().as_millis() as u64) >= budget_ms {
                    break 'outer;
                }
                if tr[i] != tr[i - 1] {
                    // replace the next `chunk` decisions by "continue previous task"
                    let mut cand = traces.clone();
                    let end = (i + chunk).min(tr.len());
                    for j in i..end {
                        cand[p][j] = tr[i - 1];
                    }
                    let o = exec(&best, &Plan::Replay { traces: cand, strict: false });
                    let shorter_or_fewer = switches(&o.traces) < switches(&best_out.traces)
                        || total_len(&o.traces) < total_len(&best_out.traces);
                    if same(&o) && shorter_or_fewer {
                        best_out = o;
                        ms.steps += 1;
                        improved = true;
                        break 'outer;
                    }
                    i = end;
                } else {
                    i += 1;
                }
            }
        }
        if !improved {
            chunk /= 2;
        }
    }
    // the stored trace is the one actually executed; make sure it replays strictly
    let strict = exec(&best, &Plan::Replay { traces: best_out.traces.clone(), strict: true });
    if same(&strict) && !strict.diverged {
        best_out = strict;
    }
    (best, best_out, ms)
}

fn switches(t: &[Vec<u16>]) -> usize {
    t.iter().map(|tr| tr.windows(2).filter(|w| w[0] != w[1]).count()).sum()
}

// ------------------------------------------------------------------ search

pub struct SearchCfg {
    pub tier: Tier,
    pub base_seed: u64,
    pub runs: u64,
    pub max_wall_s: f64,
    pub workers: usize,
}

pub struct SearchReport<S: Scenario> {
    pub runs: u64,
    pub nontrivial_distinct: u64,
    pub distinct_histories: u64,
    pub distinct_schedules: u64,
    pub stats: RunStats,
    pub wall_s: f64,
    pub samples: Vec<Value>,
    /// indices of violating runs (deterministic in (seed, index); re-executed by the reporter process)
    pub violations: Vec<u64>,
    /// runs that never came back: (index, replay file, finding signature)
    pub hung: Vec<(u64, String, String)>,
    pub tier: Tier,
    pub _marker: std::marker::PhantomData<S>,
    /// known findings hit: signature -> (count, first index)
    pub known_hits: BTreeMap<String, (u64, u64)>,
    pub stopped_early: bool,
}

pub fn env_u64(k: &str, default: u64) -> u64 {
    std::env::var(k).ok().and_then(|v| v.parse().ok()).unwrap_or(default)
}

pub fn base_seed() -> u64 {
    env_u64("VERIF_SEED", 1)
}

pub fn workers() -> usize {
    env_u64("VERIF_WORKERS", 16) as usize
}

fn trace_hash(t: &[Vec<u16>]) -> u64 {
    let mut h = verif_rt::prng::Fnv::default();
    for tr in t {
        h.u64(tr.len() as u64);
        for x in tr {
            h.u64(*x as u64);
        }
    }
    h.0
}

/// What a worker process hands back to the parent (JSON file) – plus two binary
/// files with the raw history / schedule hashes of its runs.
#[derive(Serialize, Deserialize, Default)]
struct ShardSummary {
    done: u64,
    stats: RunStats,
    samples: Vec<(u64, Value)>,
    violation_indices: Vec<u64>,
    known_hits: BTreeMap<String, (u64, u64)>,
    stopped_on_wall: bool,
    /// Some(i): this worker process saw a violation that a fresh process does not show - state
    /// of the program under test (a `static`) was carried over from an earlier simulated process.
    /// It stopped; a fresh worker process continues the shard at index i.
    #[serde(default)]
    continue_at: Option<u64>,
}

/// exit code of a worker that asks to be replaced by a fresh process (see `continue_at`)
pub const WORKER_REPLACE_ME: i32 = 4;
/// exit code of `--confirm` when the run shows a violation
pub const CONFIRMED: i32 = 10;

/// `--confirm <prop> <tier> <seed> <index>`: one run in a fresh process
pub fn confirm_main<S: Scenario>(tier: Tier, base_seed: u64, idx: u64) -> i32 {
    let limit = watchdog::hang_limit_s();
    watchdog::arm(limit, Box::new(move || std::process::exit(CONFIRMED)));
    let (_sc, out) = run_one::<S>(base_seed, tier, idx);
    watchdog::disarm();
    if out.violation.is_some() {
        CONFIRMED
    } else {
        0
    }
}

/// Does index i show a violation when it is the first simulated process of a fresh OS process?
fn confirmed_in_fresh_process<S: Scenario>(tier: Tier, base_seed: u64, i: u64) -> bool {
    let exe = std::env::current_exe().expect("current exe");
    let st = std::process::Command::new(exe)
        .arg("--confirm")
        .arg(S::PROP)
        .arg(tier.name())
        .arg(base_seed.to_string())
        .arg(i.to_string())
        .stdin(std::process::Stdio::null())
        .status();
    match st {
        Ok(st) => st.code() != Some(0),
        Err(_) => true,
    }
}

fn write_u64s(path: &str, v: &[u64]) {
    let mut bytes = Vec::with_capacity(v.len() * 8);
    for x in v {
        bytes.extend_from_slice(&x.to_le_bytes());
    }
    std::fs::write(path, bytes).expect("write hash file");
}

fn read_u64s(path: &str) -> Vec<u64> {
    let bytes = std::fs::read(path).unwrap_or_default();
    bytes.chunks_exact(8).map(|c| u64::from_le_bytes(c.try_into().unwrap())).collect()
}

pub fn run_one<S: Scenario>(base_seed: u64, tier: Tier, i: u64) -> (S, Outcome) {
    let prop_seed = derive(base_seed, S::LABEL);
    let run_seed = derive(prop_seed, i);
    let sc = S::generate(run_seed, tier, i);
    let out = sc.execute(&Plan::Seeded);
    (sc, out)
}

/// Worker process: runs the indices i = shard, shard+of, ... < runs, one after
/// the other (each simulated process still gets its own fresh OS thread).
/// Parallelism is across worker *processes*: simulated processes allocate and
/// free many stacks, and doing that from 16 threads of one address space
/// serialises on the kernel's mmap lock.
#[allow(clippy::too_many_arguments)]
pub fn worker_main<S: Scenario>(tier: Tier, base_seed: u64, runs: u64, shard: u64, of: u64, max_wall_s: f64, dir: &str, from: u64, part: u64) -> i32 {
    let start = Instant::now();
    let known = load_known_findings(S::PROP);
    let stop_file = format!("{dir}/STOP");
    let mut sum = ShardSummary::default();
    let mut hist: Vec<u64> = vec![];
    let mut nontriv: Vec<u64> = vec![];
    let mut sched: Vec<u64> = vec![];
    let mut i = from.max(shard);
    let mut n = 0u64;
    while i < runs {
        if n % 64 == 0 {
            if start.elapsed().as_secs_f64() > max_wall_s {
                sum.stopped_on_wall = true;
                break;
            }
            if std::path::Path::new(&stop_file).exists() {
                break;
            }
        }
        {
            let (dir2, limit) = (dir.to_string(), watchdog::hang_limit_s());
            watchdog::arm(
                limit,
                Box::new(move || {
                    let prop_seed = derive(base_seed, S::LABEL);
                    let sc = S::generate(derive(prop_seed, i), tier, i);
                    let path = write_hang_replay(&sc, base_seed, i, limit);
                    let sig = sc.finding_signature(&Violation { class: HANG_CLASS.into(), detail: String::new() });
                    let _ = std::fs::write(format!("{dir2}/shard-{shard}.hung"), format!("{i}\n{path}\n{sig}\n"));
                    let _ = std::fs::write(format!("{dir2}/STOP"), b"stop");
                    std::process::exit(3);
                }),
            );
        }
        let (sc, out) = run_one::<S>(base_seed, tier, i);
        watchdog::disarm();
        n += 1;
        sum.done += 1;
        sum.stats.merge(&out.stats, &[]);
        hist.push(out.history_hash);
        if out.nontrivial {
            nontriv.push(out.history_hash);
        }
        sched.push(trace_hash(&out.traces));
        if i < 3 || (i % 9973 == 0 && sum.samples.len() < 3) {
            sum.samples.push((
                i,
                json!({
                    "index": i,
                    "run_seed": sc.run_seed(),
                    "scenario": serde_json::to_value(&sc).unwrap(),
                    "decisions": out.stats.decisions,
                    "context_switches": out.stats.switches,
                    "trace_prefix": out.traces.iter().map(|t| t.iter().take(48).copied().collect::<Vec<u16>>()).collect::<Vec<_>>(),
                    "history_hash": format!("{:016x}", out.history_hash),
                    "violation": out.violation.as_ref().map(|v| v.class.clone()),
                }),
            ));
        }
        if let Some(v) = &out.violation {
            let sig = sc.finding_signature(v);
            if known.iter().any(|k| k.signature == sig) {
                let e = sum.known_hits.entry(sig).or_insert((0, i));
                e.0 += 1;
                e.1 = e.1.min(i);
            } else if n > 1 && !confirmed_in_fresh_process::<S>(tier, base_seed, i) {
                // not a property of this run: a fresh process does not show it. A simulated
                // process must start from fresh statics; this OS process no longer provides that.
                sum.stats.probe("violations_seen_only_with_static_state_carried_over_from_earlier_runs_discarded", 1);
                sum.continue_at = Some(i + of);
                break;
            } else {
                sum.violation_indices.push(i);
                if sum.violation_indices.len() >= 2 {
                    let _ = std::fs::write(&stop_file, b"stop");
                    break;
                }
            }
        }
        i += of;
    }
    // wall-clock budget of the shard as a whole
    let left = (max_wall_s - start.elapsed().as_secs_f64()).max(1.0);
    write_u64s(&format!("{dir}/shard-{shard}-{part}.hist"), &hist);
    write_u64s(&format!("{dir}/shard-{shard}-{part}.nontriv"), &nontriv);
    write_u64s(&format!("{dir}/shard-{shard}-{part}.sched"), &sched);
    std::fs::write(format!("{dir}/shard-{shard}-{part}.json"), serde_json::to_string(&sum).unwrap()).expect("write shard summary");
    if let Some(next) = sum.continue_at {
        let _ = std::fs::write(format!("{dir}/shard-{shard}.next"), format!("{next} {} {left}", part + 1));
        return WORKER_REPLACE_ME;
    }
    0
}

pub fn search<S: Scenario>(cfg: &SearchCfg) -> SearchReport<S> {
    let start = Instant::now();
    let dir = format!("{}/tmp-shards/{}-{}-{}", std::env::var("CARGO_TARGET_DIR").unwrap_or_else(|_| format!("{}/target", verif_dir())), S::PROP, cfg.tier.name(), std::process::id());
    let _ = std::fs::remove_dir_all(&dir);
    std::fs::create_dir_all(&dir).expect("create shard dir");
    let exe = std::env::current_exe().expect("current exe");
    let of = cfg.workers.max(1) as u64;
    let mut children = vec![];
    let spawn_worker = |k: u64, wall: f64, from: u64, part: u64| {
        std::process::Command::new(&exe)
            .arg("--worker")
            .arg(S::PROP)
            .arg(cfg.tier.name())
            .arg(cfg.base_seed.to_string())
            .arg(cfg.runs.to_string())
            .arg(k.to_string())
            .arg(of.to_string())
            .arg(format!("{wall}"))
            .arg(&dir)
            .arg(from.to_string())
            .arg(part.to_string())
            .stdin(std::process::Stdio::null())
            .spawn()
            .expect("spawn worker process")
    };
    for k in 0..of {
        children.push((k, spawn_worker(k, cfg.max_wall_s, 0, 0)));
    }
    let mut parts: Vec<u64> = vec![1; of as usize];
    let mut harness_errors = vec![];
    let mut hung: Vec<(u64, String, String)> = vec![];
    let mut hung_shards: Vec<u64> = vec![];
    for (k, mut c) in children {
      loop {
        let pid = c.id();
        let res = c.wait();
        let _ = std::fs::remove_dir_all(format!("/dev/shm/verif-sim-{pid}"));
        match res {
            Ok(st) if st.code() == Some(WORKER_REPLACE_ME) => {
                // the worker asks for a fresh process to continue its shard
                let t = std::fs::read_to_string(format!("{dir}/shard-{k}.next")).unwrap_or_default();
                let f: Vec<&str> = t.split_whitespace().collect();
                if f.len() == 3 && parts[k as usize] < 100_000 {
                    let (from, part, left) = (f[0].parse().unwrap_or(u64::MAX), f[1].parse().unwrap_or(1), f[2].parse().unwrap_or(1.0));
                    parts[k as usize] = part + 1;
                    if !std::path::Path::new(&format!("{dir}/STOP")).exists() {
                        c = spawn_worker(k, left, from, part);
                        continue;
                    }
                } else {
                    harness_errors.push(format!("worker {k} asked to be replaced but left no continuation record"));
                }
            }
            Ok(st) if st.success() => {}
            Ok(st) if st.code() == Some(3) => {
                if let Ok(t) = std::fs::read_to_string(format!("{dir}/shard-{k}.hung")) {
                    let mut l = t.lines();
                    let idx = l.next().and_then(|x| x.parse().ok()).unwrap_or(0);
                    hung.push((idx, l.next().unwrap_or("").to_string(), l.next().unwrap_or("").to_string()));
                    hung_shards.push(k);
                } else {
                    harness_errors.push(format!("worker {k} reported a hang but left no record"));
                }
            }
            Ok(st) => harness_errors.push(format!("worker {k} ended with {st}")),
            Err(e) => harness_errors.push(format!("worker {k}: {e}")),
        }
        break;
      }
    }
    let mut stats = RunStats::default();
    let mut histories: HashSet<u64> = HashSet::new();
    let mut nontrivial: HashSet<u64> = HashSet::new();
    let mut schedules: HashSet<u64> = HashSet::new();
    let mut samples: Vec<(u64, Value)> = vec![];
    let mut viol_idx: Vec<u64> = vec![];
    let mut known_hits: BTreeMap<String, (u64, u64)> = BTreeMap::new();
    let mut done = 0u64;
    let mut stopped = false;
    for (k, part) in (0..of).flat_map(|k| (0..parts[k as usize]).map(move |p| (k, p))) {
        let js = std::fs::read_to_string(format!("{dir}/shard-{k}-{part}.json"));
        let sum: ShardSummary = match js.ok().and_then(|t| serde_json::from_str(&t).ok()) {
            Some(s) => s,
            None => {
                if !hung_shards.contains(&k) && part == 0 {
                    harness_errors.push(format!("worker {k} left no summary"));
                }
                continue;
            }
        };
        done += sum.done;
        stats.merge(&sum.stats, &[]);
        samples.extend(sum.samples);
        viol_idx.extend(sum.violation_indices);
        stopped |= sum.stopped_on_wall;
        for (sig, v) in sum.known_hits {
            let e = known_hits.entry(sig).or_insert((0, v.1));
            e.0 += v.0;
            e.1 = e.1.min(v.1);
        }
        histories.extend(read_u64s(&format!("{dir}/shard-{k}-{part}.hist")));
        nontrivial.extend(read_u64s(&format!("{dir}/shard-{k}-{part}.nontriv")));
        schedules.extend(read_u64s(&format!("{dir}/shard-{k}-{part}.sched")));
    }
    let _ = std::fs::remove_dir_all(&dir);
    if !harness_errors.is_empty() {
        for e in &harness_errors {
            out!("HARNESS-ERROR: {e}");
        }
        std::process::exit(2);
    }
    samples.sort_by_key(|s| s.0);
    viol_idx.sort();
    hung.sort();
    SearchReport {
        runs: done,
        nontrivial_distinct: nontrivial.len() as u64,
        distinct_histories: histories.len() as u64,
        distinct_schedules: schedules.len() as u64,
        stats,
        wall_s: start.elapsed().as_secs_f64(),
        samples: samples.into_iter().map(|s| s.1).take(8).collect(),
        violations: viol_idx,
        hung,
        tier: cfg.tier,
        _marker: std::marker::PhantomData,
        known_hits,
        stopped_early: stopped,
    }
}

// ------------------------------------------------------------------ evidence

pub struct EvidenceInput<'a> {
    pub property: &'a str,
    pub tier: Tier,
    pub seed: u64,
    pub level: &'a str,
    pub rule: &'a str,
    pub explanation: String,
    pub evaluations: u64,
    pub distinct_nontrivial: u64,
    pub extra: Value,
    pub samples: Vec<Value>,
    pub assumptions: Vec<String>,
    pub wall_s: f64,
    pub violations: u64,
    pub stats: &'a RunStats,
    pub exhaustive: Option<bool>,
}

pub fn components_table() -> Value {
    json!({
        "real_code": [
            "every line of text-utils reached by the scenario (Pipe, Buffered, Batched, Tensorized, MultiTrainDataGenerator, TrainLoader/InferenceLoader via the driver hook, train_pipeline with all pre/post-processing, tokenizers, train_bpe, Dictionary)",
            "the file system (real files in a per-run scratch directory)",
            "regex, serde, rand/rand_chacha, ndarray, unicode crates"
        ],
        "stand_in": [
            "std::thread spawn/Builder/JoinHandle/sleep -> shuttle tasks under the seeded SimScheduler + virtual clock",
            "std::sync Mutex, atomics, mpsc sync_channel -> shuttle's models (all atomics SeqCst)",
            "std::process::exit -> event ProcessExit(code) ending the simulated process",
            "process-global panic hook slot -> per-simulated-process slot; the repository's own hook closure is really invoked",
            "OS entropy (getrandom, HashMap RandomState keys) -> stream derived from the run seed",
        ]
    })
}

pub fn write_evidence(e: EvidenceInput) {
    let runs_per_hour = if e.wall_s > 0.0 { (e.evaluations as f64 / e.wall_s * 3600.0) as u64 } else { 0 };
    let mut coverage = json!({
        "evaluations": e.evaluations,
        "distinct_nontrivial": e.distinct_nontrivial,
        "rule": e.rule,
        "samples": e.samples,
        "explanation": e.explanation,
        "simulated_runs": e.evaluations,
        "simulated_processes": e.stats.processes,
        "runs_per_hour": runs_per_hour,
        "seeds_per_hour": runs_per_hour,
        "scheduling_decisions": e.stats.decisions,
        "context_switches": e.stats.switches,
        "simulated_time_ticks": e.stats.ticks,
        "simulated_time_s": e.stats.ticks as f64 * 10e-6,
        "max_concurrent_tasks": e.stats.max_tasks,
        "faults_fired": e.stats.faults,
        "probes": e.stats.probes,
        "parameter_ranges_drawn": e.stats.params.iter().map(|(k, v)| (k.clone(), json!([v.0, v.1]))).collect::<BTreeMap<_, _>>(),
        "components": components_table(),
    });
    if let Some(x) = e.exhaustive {
        coverage["exhaustive"] = json!(x);
    }
    if let Value::Object(m) = e.extra {
        for (k, v) in m {
            coverage[k] = v;
        }
    }
    let doc = json!({
        "property_id": e.property,
        "tier": e.tier.name(),
        "seed": e.seed,
        "level": e.level,
        "coverage": coverage,
        "assumptions": e.assumptions,
        "wall_s": e.wall_s,
        "violations": e.violations,
    });
    let dir = format!("{}/evidence", out_dir());
    let _ = std::fs::create_dir_all(&dir);
    let path = format!("{}/{}.json", dir, e.property);
    std::fs::write(&path, serde_json::to_string_pretty(&doc).unwrap()).expect("write evidence");
}

/// Shared tail of every check: handle violations (minimise, replay file, known
/// findings) and return the process exit code.
pub fn conclude<S: Scenario>(rep: &SearchReport<S>, base_seed: u64) -> (i32, u64) {
    let known = load_known_findings(S::PROP);
    for (sig, (n, first)) in &rep.known_hits {
        if let Some(k) = known.iter().find(|k| &k.signature == sig) {
            out!(
                "KNOWN-FINDING: property={} {} (signature={}, hit {} times, first at index {})",
                S::PROP, k.text, sig, n, first
            );
        }
    }
    let mut new_violations = 0u64;
    let mut code = 0;
    for (idx, path, sig) in &rep.hung {
        if let Some(k) = known.iter().find(|k| &k.signature == sig) {
            out!("KNOWN-FINDING: property={} {} (signature={}, run {} never finished)", S::PROP, k.text, sig, idx);
            continue;
        }
        new_violations += 1;
        if code == 0 {
            out!(
                "violation found: property={} index={} class={} (the run never reached another scheduling point within {} s)",
                S::PROP, idx, HANG_CLASS, watchdog::hang_limit_s()
            );
            out!("VIOLATION property={} replay={}", S::PROP, path);
            code = 1;
        }
    }
    for idx in &rep.violations {
        new_violations += 1;
        if code != 0 {
            continue; // report one, minimised
        }
        // the reporter re-executes the run (deterministic in (seed, index)),
        // minimises it and writes the replay file; its output is ours
        let exe = std::env::current_exe().expect("current exe");
        let st = std::process::Command::new(exe)
            .arg("--report")
            .arg(S::PROP)
            .arg(rep.tier.name())
            .arg(base_seed.to_string())
            .arg(idx.to_string())
            .stdin(std::process::Stdio::null())
            .status();
        match st {
            Ok(s) if s.code() == Some(1) => code = 1,
            other => {
                out!("HARNESS-ERROR: reporter for index {idx} ended with {other:?}");
                std::process::exit(2);
            }
        }
    }
    (code, new_violations)
}

/// `sim --report <prop> <tier> <seed> <index>`: re-execute one violating run,
/// write its replay file, minimise, overwrite the file, print the VIOLATION line.
pub fn reporter_main<S: Scenario>(tier: Tier, base_seed: u64, idx: u64) -> i32 {
    let limit = watchdog::hang_limit_s();
    watchdog::arm(
        limit,
        Box::new(move || {
            let prop_seed = derive(base_seed, S::LABEL);
            let sc = S::generate(derive(prop_seed, idx), tier, idx);
            let path = write_hang_replay(&sc, base_seed, idx, limit);
            out!("violation found: property={} index={idx} class={HANG_CLASS}", S::PROP);
            out!("VIOLATION property={} replay={}", S::PROP, path);
            std::process::exit(1);
        }),
    );
    let (sc, out) = run_one::<S>(base_seed, tier, idx);
    watchdog::disarm();
    let Some(v) = out.violation.clone() else {
        out!("HARNESS-ERROR: violation at index {idx} did not reproduce in the reporter process");
        return 2;
    };
    out!("violation found: property={} index={} class={} detail={}", S::PROP, idx, v.class, v.detail);
    let path = write_replay(&sc, &out, base_seed, idx, &MinStats::default());
    let budget_ms = env_u64("VERIF_MINIMISE_MS", 20_000);
    {
        let path = path.clone();
        watchdog::arm(
            limit + 2.5 * budget_ms as f64 / 1000.0,
            Box::new(move || {
                out!("minimisation did not come back; keeping the unminimised replay file");
                out!("VIOLATION property={} replay={}", S::PROP, path);
                std::process::exit(1);
            }),
        );
    }
    let (mut msc, mut mout, mut ms) = minimise(&sc, &out, budget_ms);
    {
        // the minimiser ran many executions in this one OS process; its result only counts if a
        // fresh process shows the same violation under the stored schedule
        let class = out.violation.as_ref().unwrap().class.clone();
        let again = execute_isolated(&msc, &Plan::Replay { traces: mout.traces.clone(), strict: true });
        if again.violation.as_ref().map(|v| &v.class) != Some(&class) || again.diverged {
            out!("the minimised scenario does not reproduce in a fresh process (state carried over between executions of the minimiser); minimising again with one fresh process per candidate");
            let r = minimise_with(&sc, &out, budget_ms, &|c: &S, p: &Plan| execute_isolated(c, p));
            msc = r.0;
            mout = r.1;
            ms = r.2;
        }
    }
    watchdog::disarm();
    let path = write_replay(&msc, &mout, base_seed, idx, &ms);
    let mv = mout.violation.as_ref().unwrap();
    out!(
        "minimised: size {} -> {}, trace {} -> {} decisions, {} shrink steps; class={} detail={}",
        ms.orig_size,
        msc.size(),
        ms.orig_trace,
        mout.traces.iter().map(|t| t.len()).sum::<usize>(),
        ms.steps,
        mv.class,
        mv.detail
    );
    out!("VIOLATION property={} replay={}", S::PROP, path);
    1
}
