//! C09 — abandoning or failing never wedges the loader: bounded look-ahead while
//! the consumer idles, prompt stop after a drop, process exit on a worker panic.
//!
//! Fault points are enumerated (a grid of cells), schedules inside each cell are
//! sampled from the seed.

use crate::c05::{f_val, Src};
use crate::common::*;
use serde::{Deserialize, Serialize};
use std::sync::Arc;
use text_utils::data::loading::{BufferedIterator, PipelineIterator};
use text_utils::data::loading::GenerationStrategy;
use text_utils::data::postprocessing::PostprocessingFnConfig;
use text_utils::data::preprocessing::PreprocessingFnConfig;
use text_utils::data::task::TrainTaskConfig;
use text_utils::data::verif::{InferenceLoaderDriver, TrainLoaderArgs, TrainLoaderDriver};
use text_utils::data::{PostprocessingConfig, PreprocessingConfig, TrainPipelineConfig};
use text_utils::data::Pipeline;
use text_utils::tokenization::{ByteGroups, ByteTokenizerConfig, GroupAggregation, SpecialConfig, TokenizeConfig, TokenizerConfig};
use text_utils::windows::WindowConfig;
use verif_rt::prng::{derive, Rng};
use verif_rt::rt::{self, Kind};
use verif_rt::{run_process, ProcSpec, Status};

#[derive(Serialize, Deserialize, Clone, Debug, PartialEq)]
pub enum Shape {
    Pipe,
    Buffered(usize),
    PipeBuffered(usize),
    /// the real InferenceLoader (scan -> enumerate -> pipe -> scan -> flatten -> batched -> buffered)
    /// through the driver hook: (buffer_size, batch_limit, prefetch_factor, sort)
    Inference(usize, usize, usize, bool),
    /// the real TrainLoader over a 300-line file with the Dummy tokenizer (10 us per item, so
    /// every processed item is visible as one virtual sleep of a worker):
    /// (buffer_size, batch_limit, prefetch_factor, sort+shuffle)
    Train(usize, usize, usize, bool),
}

#[derive(Serialize, Deserialize, Clone, Debug, PartialEq)]
pub enum Fault {
    /// consumer takes k items, idles `idle` ticks, then drops the iterator
    Drop { k: usize, idle: u32 },
    /// the processing function panics on item j; consumer stalls `stall` ticks after each item
    FnPanic { j: usize, stall: u16 },
    /// the upstream iterator panics inside next() for item j (ticket lock held)
    SrcPanic { j: usize, stall: u16 },
    /// history with a second component: the loader is created, then `train_bpe` runs in the same
    /// process (it installs its own process-global panic hook), then the processing function
    /// panics on the first item >= j
    /// `concurrent`: `train_bpe` runs on another thread *while* the loader is created (the two
    /// touch the process-global hook in an order the schedule decides), the panic comes after both
    FnPanicAfterTrainBpe {
        j: usize,
        #[serde(default)]
        concurrent: bool,
    },
    /// two loaders in one process (e.g. training and validation): pipe A is the observed one, a
    /// second threaded pipe B is created before (order 1) or after (order 0, 2) it and dropped
    /// (order 0, 1) or kept alive (order 2) before A's processing function panics on the first item >= j;
    /// order 3, 4: B is created first, then foreign code (a logging / error-reporting library) installs
    /// its own panic hook (3) or takes the current one away (4), B is dropped (4) or kept (3), then A is created;
    /// order 5: B is created while A's workers are already failing (the panic may fire at any
    /// point of B's construction)
    FnPanicTwoPipes { j: usize, order: u8 },
    /// the processing function hands item j to a helper thread, the helper panics and the
    /// worker re-raises the panic with resume_unwind (what rayon's par_iter or a scoped join does):
    /// the hook runs on the helper thread only
    HelperThreadPanic { j: usize },
    /// a session that feeds the loader on demand (`struct Session { results: Pipe, requests: Sender }`):
    /// the consumer feeds one input and takes one output k times, drops the iterator and only then
    /// closes the feed; a worker is blocked in the upstream's next() while the iterator is dropped
    DropThenCloseFeed { k: usize },
}

#[derive(Serialize, Deserialize, Clone, Debug)]
pub struct C09 {
    pub run_seed: u64,
    pub cell: u64,
    pub mode: SMode,
    pub shape: Shape,
    pub w: u8,
    /// None = unbounded upstream
    pub n: Option<usize>,
    pub fault: Fault,
    /// processing delay pattern: item i takes delays[i % len] ticks
    pub delays: Vec<u16>,
    /// a bounded upstream reports an exact size_hint (like a Vec or a range)
    #[serde(default)]
    pub hinted: bool,
    /// fault: the process's standard output is stalled while the loader runs (a consumer that
    /// holds the stdout lock, a pipe nobody reads): whoever prints blocks for ever
    #[serde(default)]
    pub stdout_stalled: bool,
    /// one item that takes far longer than all others (index, ticks): everything behind it has to wait
    #[serde(default)]
    pub straggler: Option<(u32, u32)>,
}

pub const BOUNDED_N: usize = 400;
pub const TRAIN_LINES: usize = 300;

/// The complete fault grid, in a fixed order.
pub fn grid() -> Vec<(Shape, u8, Option<usize>, Fault)> {
    let mut g = vec![];
    let ups = [Some(BOUNDED_N), None];
    // ---- drop cells
    for k in 0..=8usize {
        for idle in [0u32, 200] {
            for n in ups {
                for w in 0..=4u8 {
                    g.push((Shape::Pipe, w, n, Fault::Drop { k, idle }));
                    for b in 0..=3usize {
                        g.push((Shape::PipeBuffered(b), w, n, Fault::Drop { k, idle }));
                    }
                }
                for b in 0..=3usize {
                    g.push((Shape::Buffered(b), 0, n, Fault::Drop { k, idle }));
                }
            }
        }
    }
    // ---- many items consumed by a slow consumer before the drop: look-ahead must not grow with
    //      the number of consumed items either
    for k in [60usize, 150] {
        for w in [2u8, 4] {
            g.push((Shape::Pipe, w, None, Fault::Drop { k, idle: 40 }));
            g.push((Shape::PipeBuffered(1), w, None, Fault::Drop { k, idle: 40 }));
        }
        g.push((Shape::Buffered(2), 0, None, Fault::Drop { k, idle: 40 }));
    }
    // ---- large thread counts and buffers (the defaults of the Python API are 16 and more)
    for k in [0usize, 3] {
        for idle in [0u32, 200] {
            for n in ups {
                g.push((Shape::Pipe, 16, n, Fault::Drop { k, idle }));
                g.push((Shape::PipeBuffered(16), 4, n, Fault::Drop { k, idle }));
                g.push((Shape::Buffered(100), 0, n, Fault::Drop { k, idle }));
            }
        }
    }
    g.push((Shape::Pipe, 16, Some(40), Fault::FnPanic { j: 5, stall: 0 }));
    g.push((Shape::Pipe, 255, Some(3), Fault::FnPanic { j: 1, stall: 0 }));
    // ---- a consumer that pauses for half a minute of virtual time: anything that reads ahead
    //      "a little every so often" shows up
    for k in [0usize, 2] {
        for w in [0u8, 2] {
            g.push((Shape::Pipe, w, None, Fault::Drop { k, idle: 3_000_000 }));
            g.push((Shape::PipeBuffered(1), w, None, Fault::Drop { k, idle: 3_000_000 }));
        }
        g.push((Shape::Buffered(2), 0, None, Fault::Drop { k, idle: 3_000_000 }));
        g.push((Shape::Inference(2, 4, 1, false), 2, None, Fault::Drop { k, idle: 3_000_000 }));
        g.push((Shape::Train(2, 4, 1, false), 2, Some(TRAIN_LINES), Fault::Drop { k, idle: 3_000_000 }));
    }
    // ---- the real InferenceLoader: drop after k batches, upstream panic
    for k in [0usize, 1, 3] {
        for idle in [0u32, 200] {
            for n in ups {
                for w in [0u8, 1, 3] {
                    for b in [0usize, 2] {
                        for bl in [1usize, 4] {
                            for (pf, sort) in [(1usize, false), (3, true)] {
                                g.push((Shape::Inference(b, bl, pf, sort), w, n, Fault::Drop { k, idle }));
                            }
                        }
                    }
                }
            }
        }
    }
    // ---- the real TrainLoader, abandoned mid-epoch (what `iter(train_loader)` does to the previous iterator)
    for k in [0usize, 1, 5] {
        for idle in [0u32, 200] {
            for w in [0u8, 1, 3] {
                for b in [0usize, 2] {
                    for (bl, pf, sort) in [(1usize, 1usize, false), (4, 3, true)] {
                        g.push((Shape::Train(b, bl, pf, sort), w, Some(TRAIN_LINES), Fault::Drop { k, idle }));
                    }
                }
            }
        }
    }
    for j in [0usize, 3, 8] {
        for w in [1u8, 3] {
            for n in [Some(40usize), None] {
                g.push((Shape::Inference(2, 4, 1, false), w, n, Fault::SrcPanic { j, stall: 0 }));
            }
        }
    }
    // ---- panic on one of the last items of a bounded stream (other workers may already have
    //      seen the end of the input and be on their way out)
    for j in [0usize, 1, 2, 5, 8] {
        for d in 1..=3usize {
            for w in 1..=4u8 {
                for stall in [0u16, 30] {
                    g.push((Shape::Pipe, w, Some(j + d), Fault::FnPanic { j, stall }));
                    g.push((Shape::PipeBuffered(1), w, Some(j + d), Fault::FnPanic { j, stall }));
                }
                g.push((Shape::Pipe, w, Some(j + d), Fault::SrcPanic { j, stall: 0 }));
            }
        }
    }
    // ---- demand-fed upstream: the iterator is dropped before the feed is closed
    for k in [0usize, 1, 3, 8] {
        for w in 1..=3u8 {
            g.push((Shape::Pipe, w, None, Fault::DropThenCloseFeed { k }));
            g.push((Shape::PipeBuffered(1), w, None, Fault::DropThenCloseFeed { k }));
        }
    }
    // ---- the panic is raised on a helper thread of the processing function
    for j in [0usize, 3, 8] {
        for w in 1..=3u8 {
            g.push((Shape::Pipe, w, None, Fault::HelperThreadPanic { j }));
            g.push((Shape::PipeBuffered(1), w, Some(40), Fault::HelperThreadPanic { j }));
        }
    }
    // ---- a second pipe in the same process, created and dropped around the observed one
    for j in [0usize, 4] {
        for order in 0..6u8 {
            for w in [1u8, 2, 4] {
                g.push((Shape::Pipe, w, None, Fault::FnPanicTwoPipes { j, order }));
                g.push((Shape::PipeBuffered(1), w, Some(40), Fault::FnPanicTwoPipes { j, order }));
            }
        }
    }
    // ---- panic after another component replaced the process-global hook
    for j in [0usize, 4, 8] {
        for w in 1..=3u8 {
            g.push((Shape::Pipe, w, None, Fault::FnPanicAfterTrainBpe { j, concurrent: false }));
            g.push((Shape::PipeBuffered(2), w, Some(40), Fault::FnPanicAfterTrainBpe { j, concurrent: false }));
            g.push((Shape::Pipe, w, None, Fault::FnPanicAfterTrainBpe { j, concurrent: true }));
            g.push((Shape::PipeBuffered(2), w, Some(40), Fault::FnPanicAfterTrainBpe { j, concurrent: true }));
        }
    }
    // ---- panic cells (a worker's processing function / the upstream under the ticket lock)
    grid_panic_cells(&mut g);
    // debugging aid: VERIF_C09_ONLY=train|inference|pipe|buffered restricts the grid
    if let Ok(only) = std::env::var("VERIF_C09_ONLY") {
        g.retain(|(s, ..)| {
            let name = match s {
                Shape::Pipe => "pipe",
                Shape::Buffered(_) => "buffered",
                Shape::PipeBuffered(_) => "pipe+buffered",
                Shape::Inference(..) => "inference",
                Shape::Train(..) => "train",
            };
            name == only
        });
    }
    g
}

fn grid_panic_cells(g: &mut Vec<(Shape, u8, Option<usize>, Fault)>) {
    let mut local = vec![];
    {
        let g = &mut local;
    for j in 0..=8usize {
        for stall in [0u16, 30] {
            for w in 1..=4u8 {
                for n in [Some(40usize), None] {
                    g.push((Shape::Pipe, w, n, Fault::FnPanic { j, stall }));
                    g.push((Shape::Pipe, w, n, Fault::SrcPanic { j, stall }));
                    for b in [0usize, 2] {
                        g.push((Shape::PipeBuffered(b), w, n, Fault::FnPanic { j, stall }));
                        g.push((Shape::PipeBuffered(b), w, n, Fault::SrcPanic { j, stall }));
                    }
                }
            }
            // unthreaded pipe: the function runs on the consumer's own thread
            g.push((Shape::Pipe, 0, Some(40), Fault::FnPanic { j, stall }));
        }
    }
    }
    g.extend(local);
}

impl C09 {
    /// generous linear envelope for "a constant depending on thread count and buffer size"
    pub fn envelope(&self) -> i64 {
        let b = match self.shape {
            Shape::Pipe => 0,
            Shape::Buffered(b) | Shape::PipeBuffered(b) => b,
            // batches of up to `bl` items, a sort buffer of bl*pf items, b buffered batches
            Shape::Inference(b, bl, pf, _) | Shape::Train(b, bl, pf, _) => (b + 2) * bl * pf.max(1),
        };
        8 * (self.w as i64 + b as i64) + 16
    }
}

impl Scenario for C09 {
    const PROP: &'static str = "C09";
    const LABEL: u64 = 9;

    fn generate(run_seed: u64, _tier: Tier, index: u64) -> Self {
        let g = grid();
        let cell = index % g.len() as u64;
        let (shape, w, n, fault) = g[cell as usize].clone();
        let mut rng = Rng::new(derive(run_seed, 1));
        let delays = match rng.below(5) {
            0 => vec![0],
            1 => vec![2],
            2 => vec![0, 0, 9],
            3 => (0..5).map(|_| rng.below(12) as u16).collect(),
            _ => vec![7, 0, 0, 0],
        };
        let hinted = rng.chance(0.5);
        // only where a panic is injected: that is where the program might want to print
        let stdout_stalled = !matches!(fault, Fault::Drop { .. }) && rng.chance(0.3);
        let mode = SMode::draw(&mut rng);
        // plain drop cells over pipes of the library's own building blocks: a straggler right
        // behind what the consumer takes (0.2 s .. 2 s of virtual time)
        let straggler = match (&fault, &shape) {
            (Fault::Drop { k, .. }, Shape::Pipe | Shape::PipeBuffered(_)) if w >= 1 && rng.chance(0.2) => {
                Some((*k as u32 + rng.below(w as u64 + 2) as u32, rng.range(20_000, 200_000) as u32))
            }
            _ => None,
        };
        C09 { run_seed, cell, mode, shape, w, n, fault, delays, hinted, stdout_stalled, straggler }
    }

    fn run_seed(&self) -> u64 {
        self.run_seed
    }

    fn size(&self) -> u64 {
        let f = match self.fault {
            Fault::Drop { k, idle } => k as u64 + (idle > 0) as u64,
            Fault::FnPanic { j, stall } | Fault::SrcPanic { j, stall } => j as u64 + (stall > 0) as u64,
            Fault::FnPanicAfterTrainBpe { j, concurrent } => j as u64 + 3 + concurrent as u64,
            Fault::FnPanicTwoPipes { j, order } => j as u64 + 3 + order as u64,
            Fault::HelperThreadPanic { j } => j as u64 + 2,
            Fault::DropThenCloseFeed { k } => k as u64 + 2,
        };
        f + self.w as u64
            + match self.shape {
                Shape::Pipe => 0,
                Shape::Buffered(b) => 1 + b as u64,
                Shape::PipeBuffered(b) => 2 + b as u64,
                Shape::Inference(b, bl, pf, sort) | Shape::Train(b, bl, pf, sort) => 4 + (b + bl + pf) as u64 + sort as u64,
            }
            + self.delays.iter().filter(|d| **d > 0).count() as u64
            + if self.n.is_none() { 1 } else { 0 }
    }

    fn shrink(&self) -> Vec<Self> {
        let mut v = vec![];
        let mut push = |f: &dyn Fn(&mut C09)| {
            let mut c = self.clone();
            f(&mut c);
            v.push(c);
        };
        if self.straggler.is_some() {
            push(&|c| c.straggler = None);
        }
        match self.fault.clone() {
            Fault::Drop { k, idle } => {
                if k > 0 {
                    push(&|c| c.fault = Fault::Drop { k: k / 2, idle });
                    push(&|c| c.fault = Fault::Drop { k: k - 1, idle });
                }
                if idle > 0 {
                    push(&|c| c.fault = Fault::Drop { k, idle: 0 });
                }
            }
            Fault::FnPanicAfterTrainBpe { j, concurrent } => {
                if j > 0 {
                    push(&|c| c.fault = Fault::FnPanicAfterTrainBpe { j: j - 1, concurrent });
                }
            }
            Fault::FnPanicTwoPipes { j, order } => {
                if j > 0 {
                    push(&|c| c.fault = Fault::FnPanicTwoPipes { j: j - 1, order });
                }
            }
            Fault::DropThenCloseFeed { k } => {
                if k > 0 {
                    push(&|c| c.fault = Fault::DropThenCloseFeed { k: k - 1 });
                }
            }
            Fault::HelperThreadPanic { j } => {
                if j > 0 {
                    push(&|c| c.fault = Fault::HelperThreadPanic { j: j - 1 });
                }
            }
            Fault::FnPanic { j, stall } => {
                if j > 0 {
                    push(&|c| c.fault = Fault::FnPanic { j: j - 1, stall });
                }
                if stall > 0 {
                    push(&|c| c.fault = Fault::FnPanic { j, stall: 0 });
                }
            }
            Fault::SrcPanic { j, stall } => {
                if j > 0 {
                    push(&|c| c.fault = Fault::SrcPanic { j: j - 1, stall });
                }
                if stall > 0 {
                    push(&|c| c.fault = Fault::SrcPanic { j, stall: 0 });
                }
            }
        }
        match self.shape {
            Shape::PipeBuffered(b) => {
                push(&|c| c.shape = Shape::Pipe);
                push(&|c| {
                    c.shape = Shape::Buffered(b);
                    c.w = 0
                });
                if b > 0 {
                    push(&|c| c.shape = Shape::PipeBuffered(b - 1));
                }
            }
            Shape::Buffered(b) if b > 0 => push(&|c| c.shape = Shape::Buffered(b - 1)),
            _ => {}
        }
        if self.w > 1 {
            push(&|c| c.w -= 1);
        }
        if self.n.is_none() {
            push(&|c| c.n = Some(BOUNDED_N));
        }
        if self.stdout_stalled {
            push(&|c| c.stdout_stalled = false);
        }
        if self.delays.iter().any(|d| *d > 0) {
            push(&|c| c.delays = vec![0]);
        }
        if self.mode != SMode::Uniform {
            push(&|c| c.mode = SMode::Uniform);
        }
        v
    }

    fn finding_signature(&self, v: &Violation) -> String {
        let shape = match self.shape {
            Shape::Pipe => "pipe",
            Shape::Buffered(_) => "buffered",
            Shape::PipeBuffered(_) => "pipe+buffered",
            Shape::Inference(..) => "inference-loader",
            Shape::Train(..) => "train-loader",
        };
        let fault = match self.fault {
            Fault::Drop { .. } => "drop",
            Fault::FnPanic { .. } => "fn-panic",
            Fault::FnPanicAfterTrainBpe { .. } => "fn-panic-after-train_bpe",
            Fault::FnPanicTwoPipes { .. } => "fn-panic-with-second-pipe",
            Fault::HelperThreadPanic { .. } => "panic-on-helper-thread",
            Fault::DropThenCloseFeed { .. } => "drop-before-feed-closed",
            Fault::SrcPanic { .. } => "src-panic",
        };
        format!("{}/{}/{}", v.class, shape, fault)
    }

    fn execute(&self, plan: &Plan) -> Outcome {
        let mut spec = ProcSpec::new(self.mode.to_mode(), derive(self.run_seed, 100), derive(self.run_seed, 200));
        // generous: a correct run needs a few hundred decisions plus ~100 per consumed item
        let (consumed, idle) = match self.fault {
            Fault::Drop { k, idle } => (k as u64, idle as u64),
            _ => (0, 0),
        };
        // a background thread that polls every 20 ticks during the pause costs two decisions per poll
        spec.step_cap = env_u64("VERIF_C09_CAP", 300_000 + 10_000 * consumed + idle / 2 + self.straggler.map_or(0, |(_, t)| t as u64));
        if let Plan::Replay { traces, strict } = plan {
            spec = spec.replaying(traces.first().cloned().unwrap_or_default(), *strict);
        }
        let spec_cap = spec.step_cap;
        let sc = self.clone();
        let scratch = if let Shape::Train(..) = self.shape {
            let d = crate::c20::ScratchDir::new("c09", self.run_seed);
            let mut text = String::new();
            for i in 0..TRAIN_LINES {
                text.push_str(&format!("{{\"input\": \"line {i} of the corpus\"}}\n"));
            }
            std::fs::write(d.path("train.jsonl"), text).expect("write jsonl");
            Some(d)
        } else {
            None
        };
        let train_file = scratch.as_ref().map(|d| d.path("train.jsonl")).unwrap_or_default();
        let bpe_scratch = if let Fault::FnPanicAfterTrainBpe { .. } = self.fault {
            let d = crate::c20::ScratchDir::new("c09b", self.run_seed);
            std::fs::write(d.path("corpus.txt"), "ab ab abc\nab b\n").expect("write corpus");
            Some(d)
        } else {
            None
        };
        let (bpe_in, bpe_out) = bpe_scratch.as_ref().map(|d| (d.path("corpus.txt"), d.path("merges.bin"))).unwrap_or_default();
        let r = run_process(&spec, move || {
            if sc.stdout_stalled {
                rt::stall_stdout();
            }
            let delays = Arc::new(sc.delays.clone());
            let straggler = sc.straggler;
            let fn_panic_at = match sc.fault {
                Fault::FnPanic { j, .. } => Some(j as u64),
                _ => None,
            };
            let helper_panic_at = match sc.fault {
                Fault::HelperThreadPanic { j } => Some(j as u64),
                _ => None,
            };
            let armed = Arc::new(std::sync::atomic::AtomicBool::new(false));
            let armed2 = armed.clone();
            let late_panic_from = match sc.fault {
                Fault::FnPanicAfterTrainBpe { j, .. } | Fault::FnPanicTwoPipes { j, .. } => Some(j as u64),
                _ => None,
            };
            // second loader created *before* the observed one
            let other = |n: u64| -> Box<dyn Iterator<Item = u64>> {
                let g: Pipeline<u64, u64> = Arc::new(|x: u64| x + 1);
                Box::new((0..n).pipe(g, 2))
            };
            let mut early_other = match sc.fault {
                Fault::FnPanicTwoPipes { order: 1 | 3 | 4, .. } => Some(other(6)),
                _ => None,
            };
            match sc.fault {
                Fault::FnPanicTwoPipes { order: 3, .. } => {
                    verif_rt::shim::std::panic::set_hook(Box::new(|_| {}));
                    rt::log(Kind::Fault, 10, 3);
                }
                Fault::FnPanicTwoPipes { order: 4, .. } => {
                    drop(verif_rt::shim::std::panic::take_hook());
                    drop(early_other.take());
                    rt::log(Kind::Fault, 10, 4);
                }
                _ => {}
            }
            let src_panic_at = match sc.fault {
                Fault::SrcPanic { j, .. } => Some(j),
                _ => None,
            };
            let f: Pipeline<u64, u64> = Arc::new(move |x: u64| {
                rt::log(Kind::FnStart, x, 0);
                let d = match straggler {
                    Some((at, ticks)) if at as u64 == x => ticks as u64,
                    _ => delays[x as usize % delays.len()] as u64,
                };
                if d > 0 {
                    rt::sleep_ticks(d);
                }
                if Some(x) == fn_panic_at {
                    rt::log(Kind::Fault, 2, x);
                    panic!("injected: processing function fails on item {x}");
                }
                if Some(x) == helper_panic_at {
                    rt::log(Kind::Fault, 8, x);
                    let h = verif_rt::shim::std::thread::spawn(move || {
                        panic!("injected: helper thread of the processing function fails on item {x}");
                    });
                    if let Err(p) = h.join() {
                        std::panic::resume_unwind(p);
                    }
                }
                if let Some(from) = late_panic_from {
                    if x >= from && armed2.load(std::sync::atomic::Ordering::SeqCst) {
                        rt::log(Kind::Fault, 5, x);
                        panic!("injected: processing function fails on item {x} (after train_bpe ran)");
                    }
                }
                rt::log(Kind::FnEnd, x, 0);
                f_val(x)
            });
            let trainer = if let Fault::FnPanicAfterTrainBpe { concurrent: true, .. } = sc.fault {
                let (i, o) = (bpe_in.clone(), bpe_out.clone());
                Some(verif_rt::shim::std::thread::spawn(move || {
                    let res = text_utils::tokenization::train_bpe(&[i], 320, 60, &o, None, None, 1, false);
                    rt::log(Kind::Note, 1, res.is_ok() as u64);
                }))
            } else {
                None
            };
            let feed = Arc::new(crate::c05::Gate::new());
            let src = PanickingSrc {
                inner: Src {
                    next: 0,
                    n: sc.n.unwrap_or(usize::MAX),
                    delay: Arc::new(vec![]),
                    hinted: sc.hinted,
                    // window 0: item i exists once i + 1 inputs were fed
                    gate: if matches!(sc.fault, Fault::DropThenCloseFeed { .. }) { Some((feed.clone(), 0)) } else { None },
                },
                panic_at: src_panic_at,
            };
            let fm = f.clone();
            let mut it: Box<dyn Iterator<Item = u64>> = match sc.shape {
                Shape::Pipe => Box::new(src.pipe(f, sc.w)),
                Shape::Buffered(b) => Box::new(src.map(move |x| fm(x)).buffered(b)),
                Shape::PipeBuffered(b) => Box::new(src.pipe(f, sc.w).buffered(b)),
                Shape::Inference(b, bl, pf, sort) => {
                    // one window per item (Full), so items delivered = windows delivered
                    let texts = src.map(|i| Ok(format!("text number {i} {}", "ab ".repeat((i % 5) as usize))));
                    let drv = InferenceLoaderDriver::new(
                        texts,
                        TokenizerConfig {
                            tokenize: TokenizeConfig::Byte(ByteTokenizerConfig {
                                use_graphemes: true,
                                pad_to_multiple_of: None,
                                groups: ByteGroups::Bytes,
                                aggregation: GroupAggregation::Mean,
                            }),
                            special: SpecialConfig::default(),
                        },
                        false,
                        WindowConfig::Full(true),
                        sc.w,
                        b,
                        bl,
                        false,
                        pf,
                        sort,
                    )
                    .expect("inference loader");
                    Box::new(InferenceBatches { drv, pending: vec![] })
                }
                Shape::Train(b, bl, pf, sort) => {
                    drop(src);
                    let dummy = TokenizerConfig {
                        tokenize: TokenizeConfig::Dummy(std::time::Duration::from_micros(10)),
                        special: SpecialConfig::default(),
                    };
                    let mut drv = TrainLoaderDriver::new(TrainLoaderArgs {
                        files: vec![train_file.clone()],
                        pipeline: TrainPipelineConfig {
                            preprocessing: PreprocessingConfig::Global(PreprocessingFnConfig::None),
                            task: TrainTaskConfig::WhitespaceCorrection(true, dummy),
                            postprocessing: PostprocessingConfig::Global(PostprocessingFnConfig::None),
                        },
                        strategy: GenerationStrategy::Sequential,
                        num_threads: sc.w,
                        buffer_size: b,
                        batch_limit: bl,
                        batch_limit_is_padded_item_size: false,
                        max_length: 512,
                        shuffle: sort,
                        prefetch_factor: pf,
                        sort,
                        seed: Some(7),
                        skip: 0,
                        limit: None,
                        distributed: None,
                    })
                    .expect("train loader");
                    drv.iter().expect("train loader iter");
                    let mut pending: Vec<u64> = vec![];
                    let mut n = 0u64;
                    Box::new(std::iter::from_fn(move || {
                        if pending.is_empty() {
                            match drv.next_batch() {
                                Ok(Some(batch)) => {
                                    pending = batch
                                        .iter()
                                        .map(|_| {
                                            n += 1;
                                            n
                                        })
                                        .collect();
                                }
                                _ => return None,
                            }
                        }
                        pending.pop()
                    }))
                }
            };
            match sc.fault {
                Fault::Drop { k, idle } => {
                    let mut got = 0usize;
                    while got < k {
                        match it.next() {
                            Some(v) => {
                                rt::log(Kind::Recv, got as u64, v);
                                got += 1;
                                if k >= 40 {
                                    // slow consumer: the workers are always ahead
                                    rt::sleep_ticks(3);
                                }
                            }
                            None => break,
                        }
                    }
                    if idle > 0 {
                        rt::log(Kind::Idle, idle as u64, 0);
                        rt::sleep_ticks(idle as u64);
                    }
                    rt::log(Kind::Drop, got as u64, 0);
                    rt::log(Kind::Fault, 1, got as u64);
                    drop(it);
                    rt::wait_threads_exit();
                }
                Fault::DropThenCloseFeed { k } => {
                    let mut got = 0usize;
                    while got < k {
                        feed.advance(); // one more input
                        match it.next() {
                            Some(v) => {
                                rt::log(Kind::Recv, got as u64, v);
                                got += 1;
                            }
                            None => break,
                        }
                    }
                    rt::log(Kind::Drop, got as u64, 0);
                    rt::log(Kind::Fault, 11, got as u64);
                    drop(it); // must not wait for the feed
                    rt::log(Kind::Note, 5, 0);
                    feed.close();
                    rt::wait_threads_exit();
                }
                Fault::FnPanicTwoPipes { order, .. } => {
                    if order == 5 {
                        armed.store(true, std::sync::atomic::Ordering::SeqCst);
                    }
                    let mut late_other = if order == 0 || order == 2 || order == 5 { Some(other(6)) } else { None };
                    for o in [&mut early_other, &mut late_other].into_iter().flatten() {
                        let _ = o.next();
                        let _ = o.next();
                    }
                    if order != 2 && order != 3 && order != 5 {
                        // the second loader goes away (e.g. validation finished) before the failure
                        drop(early_other.take());
                        drop(late_other.take());
                        rt::log(Kind::Note, 2, order as u64);
                    }
                    armed.store(true, std::sync::atomic::Ordering::SeqCst);
                    let mut got = 0usize;
                    while let Some(v) = it.next() {
                        rt::log(Kind::Recv, got as u64, v);
                        got += 1;
                    }
                    rt::log(Kind::RecvEnd, got as u64, 0);
                    drop(it);
                    drop(late_other);
                    rt::wait_threads_exit();
                }
                Fault::FnPanicAfterTrainBpe { concurrent: true, .. } => {
                    // the training ran while the loader was being created; it is over before the failure
                    if let Some(t) = trainer {
                        let _ = t.join();
                    }
                    armed.store(true, std::sync::atomic::Ordering::SeqCst);
                    let mut got = 0usize;
                    while let Some(v) = it.next() {
                        rt::log(Kind::Recv, got as u64, v);
                        got += 1;
                    }
                    rt::log(Kind::RecvEnd, got as u64, 0);
                    drop(it);
                    rt::wait_threads_exit();
                }
                Fault::FnPanicAfterTrainBpe { .. } => {
                    // another component of the library runs in the same process
                    let res = text_utils::tokenization::train_bpe(&[bpe_in.clone()], 320, 60, &bpe_out, None, None, 1, false);
                    rt::log(Kind::Note, 1, res.is_ok() as u64);
                    armed.store(true, std::sync::atomic::Ordering::SeqCst);
                    let mut got = 0usize;
                    while let Some(v) = it.next() {
                        rt::log(Kind::Recv, got as u64, v);
                        got += 1;
                    }
                    rt::log(Kind::RecvEnd, got as u64, 0);
                    drop(it);
                    rt::wait_threads_exit();
                }
                Fault::HelperThreadPanic { .. } => {
                    let mut got = 0usize;
                    while let Some(v) = it.next() {
                        rt::log(Kind::Recv, got as u64, v);
                        got += 1;
                    }
                    rt::log(Kind::RecvEnd, got as u64, 0);
                    drop(it);
                    rt::wait_threads_exit();
                }
                Fault::FnPanic { stall, .. } | Fault::SrcPanic { stall, .. } => {
                    let mut got = 0usize;
                    // the consumer keeps iterating; with an unbounded upstream it would do so for ever
                    while let Some(v) = it.next() {
                        rt::log(Kind::Recv, got as u64, v);
                        got += 1;
                        if stall > 0 {
                            rt::sleep_ticks(stall as u64);
                        }
                    }
                    rt::log(Kind::RecvEnd, got as u64, 0);
                    drop(it);
                    rt::wait_threads_exit();
                }
            }
        });

        let mut stats = RunStats::default();
        stats.absorb_proc(&r);
        stats.param("w", self.w as i64);
        stats.param("cell", self.cell as i64);
        stats.probe_max("max_decisions_in_one_run", r.decisions);
        stats.probe_max("max_step_cap_use_permille", r.decisions * 1000 / spec_cap);
        let violation = self.judge(&r, &mut stats);
        Outcome {
            violation,
            nontrivial: r.max_tasks >= 2 && r.switches >= 2,
            diverged: r.status == Status::ReplayDiverged,
            traces: vec![r.trace],
            log_hash: r.log_hash,
            history_hash: r.history_hash,
            stats,
        }
    }
}

/// adapter: the batches of the real InferenceLoader, flattened to item indices
struct InferenceBatches {
    drv: InferenceLoaderDriver,
    pending: Vec<u64>,
}

impl Iterator for InferenceBatches {
    type Item = u64;
    fn next(&mut self) -> Option<u64> {
        if self.pending.is_empty() {
            match self.drv.next_batch() {
                Ok(Some(batch)) => {
                    self.pending = batch.iter().rev().map(|it| it.item_idx as u64).collect();
                }
                _ => return None,
            }
        }
        self.pending.pop()
    }
}

pub struct PanickingSrc {
    pub inner: Src,
    pub panic_at: Option<usize>,
}

impl Iterator for PanickingSrc {
    type Item = u64;
    fn size_hint(&self) -> (usize, Option<usize>) {
        self.inner.size_hint()
    }
    fn next(&mut self) -> Option<u64> {
        if Some(self.inner.next) == self.panic_at {
            rt::log(Kind::Fault, 3, self.inner.next as u64);
            self.inner.next += 1;
            panic!("injected: upstream iterator fails");
        }
        self.inner.next()
    }
}

impl C09 {
    fn judge(&self, r: &verif_rt::ProcResult, stats: &mut RunStats) -> Option<Violation> {
        let v = |class: &str, detail: String| Some(Violation { class: class.into(), detail });
        if r.status == Status::ReplayDiverged {
            return None;
        }
        let env = self.envelope();
        // ---- look-ahead accounting over the history
        let mut pulls = 0i64;
        let mut consumed = 0i64;
        let mut max_ahead = 0i64;
        let mut dropped_at: Option<i64> = None;
        let mut pulls_after_drop = 0i64;
        let mut fault_fired = false;
        let train = matches!(self.shape, Shape::Train(..));
        for e in &r.events {
            match e.kind {
                // TrainLoader: the upstream is a file; one virtual sleep of a background
                // thread = one item processed by the Dummy tokenizer
                // (exactly one tick: the Dummy tokenizer's 10 us; other sleeps of background
                // threads, e.g. a polling loop, are not items)
                Kind::Sleep if train && e.task != 0 && e.a == 1 => {
                    pulls += 1;
                    if dropped_at.is_some() {
                        pulls_after_drop += 1;
                    }
                }
                Kind::Pull => {
                    pulls += 1;
                    if dropped_at.is_some() {
                        pulls_after_drop += 1;
                    }
                }
                Kind::Recv => consumed += 1,
                Kind::Drop => dropped_at = Some(consumed),
                Kind::Fault => fault_fired = true,
                _ => {}
            }
            let ahead = pulls - consumed;
            if dropped_at.is_none() {
                max_ahead = max_ahead.max(ahead);
            }
            if ahead > env && !matches!(r.status, Status::Exit(_)) {
                let phase = if dropped_at.is_some() { "after-drop" } else { "while-consuming" };
                return v(
                    &format!("lookahead:{phase}"),
                    format!(
                        "{} items pulled with {} consumed ({} ahead) exceeds the envelope {} for W={} shape={:?}",
                        pulls, consumed, ahead, env, self.w, self.shape
                    ),
                );
            }
        }
        let live: Vec<String> = r.live_threads().iter().map(|t| t.name.clone()).collect();
        let fault = match self.fault.clone() {
            // judged like a plain drop
            Fault::DropThenCloseFeed { k } => {
                stats.fault("iterator_dropped_before_its_demand_feed_was_closed");
                Fault::Drop { k, idle: 0 }
            }
            f => f,
        };
        match fault {
            Fault::Drop { k, idle } => {
                stats.fault("consumer_drop");
                if idle > 0 {
                    stats.fault("consumer_idle");
                }
                if self.straggler.is_some() {
                    stats.fault("straggler_item_of_0.2_to_2_s");
                }
                match &r.status {
                    Status::Completed => {}
                    s => {
                        return v(
                            &format!("after-drop:{}", s.class()),
                            format!(
                                "after the iterator was dropped (k={k}) the run ended as {:?}; {} pulls after the drop; threads still alive: {:?}",
                                s, pulls_after_drop, live
                            ),
                        )
                    }
                }
                if !live.is_empty() {
                    return v("after-drop:threads-alive", format!("threads alive after drop: {live:?}"));
                }
                if !r.panics.is_empty() {
                    return v("after-drop:panic", format!("thread panicked after drop: {:?}", r.panics));
                }
                stats.probe_max("max_lookahead_before_drop", max_ahead.max(0) as u64);
                stats.probe_max("max_pulls_after_drop", pulls_after_drop.max(0) as u64);
                if pulls_after_drop > 0 {
                    stats.probe("runs_with_pulls_after_drop", 1);
                }
                if idle > 0 && max_ahead >= self.w as i64 + 1 {
                    stats.probe("runs_where_workers_ran_ahead_while_idle", 1);
                }
                None
            }
            Fault::DropThenCloseFeed { .. } => None, // mapped to Drop above
            Fault::FnPanic { j, .. }
            | Fault::SrcPanic { j, .. }
            | Fault::FnPanicAfterTrainBpe { j, .. }
            | Fault::FnPanicTwoPipes { j, .. }
            | Fault::HelperThreadPanic { j } => {
                let is_src = matches!(self.fault, Fault::SrcPanic { .. });
                if matches!(self.fault, Fault::HelperThreadPanic { .. }) {
                    stats.fault("panic_raised_on_a_helper_thread_and_re-raised_in_the_worker");
                }
                if let Fault::FnPanicTwoPipes { order, .. } = self.fault {
                    stats.fault("second_pipe_in_the_same_process");
                    if order >= 3 {
                        stats.fault("foreign_panic_hook_set_or_taken_between_two_pipes");
                    }
                }
                if let Fault::FnPanicAfterTrainBpe { concurrent, .. } = self.fault {
                    stats.fault("other_component_replaced_the_panic_hook");
                    if concurrent {
                        // in which order the two components touched the hook slot
                        let order: Vec<String> = r.events.iter().filter(|e| e.kind == Kind::HookSet).map(|e| if e.task == 0 { "loader".to_string() } else { "train_bpe".to_string() }).collect();
                        stats.probe(&format!("hook_set_order:{}", order.join(">")), 1);
                        stats.fault("train_bpe_running_while_the_loader_is_created");
                    }
                }
                if !fault_fired {
                    // the stream ended before item j (cannot happen: every cell has n > j)
                    return v("harness:fault-did-not-fire", format!("panic at item {j} never fired; status {:?}", r.status));
                }
                stats.fault(if is_src { "upstream_panic_under_lock" } else { "processing_fn_panic" });
                if self.stdout_stalled {
                    stats.fault("stalled_standard_output");
                }
                match &r.status {
                    Status::Exit(c) if *c != 0 => {
                        if r.hook_calls > 0 {
                            stats.probe("exits_through_repo_panic_hook", 1);
                        }
                        // was the panicking worker the turn holder?
                        None
                    }
                    Status::MainPanic(_) if self.w == 0 => {
                        // unthreaded: the panic surfaces on the consumer's own thread – not wedged
                        stats.probe("unthreaded_panic_surfaces_on_consumer", 1);
                        None
                    }
                    s => v(
                        &format!("panic:{}", s.class()),
                        format!(
                            "worker panic on item {j} ({}) did not terminate the process: run ended as {:?}; consumer had {} items; threads alive: {:?}; hook installed {} times, invoked {} times",
                            if is_src { "upstream, lock held" } else { "processing function" },
                            s, consumed, live, r.hook_sets, r.hook_calls
                        ),
                    ),
                }
            }
        }
    }
}

pub fn check(tier: Tier) -> i32 {
    let seed = base_seed();
    let cells = grid().len() as u64;
    let per_cell = match tier {
        Tier::Quick => env_u64("VERIF_PER_CELL", 300),
        Tier::Thorough => env_u64("VERIF_PER_CELL", 4000),
    };
    let cfg = SearchCfg {
        tier,
        base_seed: seed,
        runs: cells * per_cell,
        max_wall_s: match tier {
            Tier::Quick => 90.0,
            Tier::Thorough => 1200.0,
        },
        workers: workers(),
    };
    let rep = search::<C09>(&cfg);
    let (code, newv) = conclude(&rep, seed);
    let complete = rep.runs == cells * per_cell;
    let mut explanation = format!(
        "fault grid of {} cells (drop after k=0..8 items with/without an idle consumer x shapes pipe / buffered / pipe+buffered x W=0..4 x B=0..3 x bounded(400)/unbounded upstream; panic of the processing function or of the upstream (ticket lock held) on item j=0..8 x W=1..4 x shapes x stalled consumer) enumerated completely, {} seeded schedules per cell ({} runs). Oracles: look-ahead envelope 8*(W+B)+16 at every event, all background threads exit after the drop, worker panic ends in ProcessExit(!=0) through the repository's own hook.",
        cells, per_cell, rep.runs
    );
    if !complete && rep.violations.is_empty() {
        explanation.push_str(" INCOMPLETE: wall-clock cap reached before all cells got their schedules.");
    }
    for p in ["runs_with_pulls_after_drop", "runs_where_workers_ran_ahead_while_idle", "exits_through_repo_panic_hook"] {
        if rep.stats.probes.get(p).copied().unwrap_or(0) == 0 {
            explanation.push_str(&format!(" PROBE-STUCK-AT-ZERO: {p}."));
        }
    }
    write_evidence(EvidenceInput {
        property: "C09",
        tier,
        seed,
        level: "fault_enumeration",
        rule: "one case = one cell of the enumerated fault grid (fault kind, position k/j, shape, W, B, upstream length, idle/stall) executed under one seeded schedule and delay pattern; distinct = distinct hash of the event history; non-trivial = at least two simulated tasks and two context switches",
        explanation,
        evaluations: rep.runs,
        distinct_nontrivial: rep.nontrivial_distinct,
        extra: serde_json::json!({
            "fault_grid_cells": cells,
            "schedules_per_cell": per_cell,
            "grid_enumerated_completely": complete,
            "distinct_schedules": rep.distinct_schedules,
            "distinct_event_histories": rep.distinct_histories,
        }),
        samples: rep.samples.clone(),
        assumptions: vec![
            "shuttle's models of Mutex (poisoning), SeqCst atomics and bounded mpsc channels (disconnect wake-ups) are faithful to std".into(),
            "process::exit is modelled as: nothing is observable afterwards".into(),
            "fault positions are enumerated (grid), schedules inside a cell are sampled".into(),
        ],
        wall_s: rep.wall_s,
        violations: newv,
        stats: &rep.stats,
        exhaustive: Some(false),
    });
    out!(
        "C09 {}: {} cells x {} schedules = {} runs, {} distinct non-trivial histories, {:.1}s, violations={}",
        tier.name(), cells, per_cell, rep.runs, rep.nontrivial_distinct, rep.wall_s, newv
    );
    code
}
