//! Deterministic-simulation harness for ad-freiburg/text-utils.
//!
//!   sim <C05|C08|C09|C19|C20> <quick|thorough>
//!   sim replay <file>
//!   sim selftest-determinism [runs]
//!
//! exit 0: property held on everything explored; exit 1: VIOLATION line printed;
//! exit 2: harness error.

/// harness output: goes to the real stdout even while fd 1 is silenced for simulated code
#[macro_export]
macro_rules! out {
    ($($arg:tt)*) => {
        verif_rt::process::emit(&format!($($arg)*))
    };
}

mod c05;
mod c08;
mod c09;
mod c19;
mod c20;
mod common;
mod prims;

use common::*;

/// run `$body` with `$S` bound to the scenario type of property `$prop`
macro_rules! with_scenario {
    ($prop:expr, $S:ident => $body:expr, $otherwise:expr) => {
        match $prop {
            "C05" => {
                type $S = c05::C05;
                $body
            }
            "C08" => {
                type $S = c08::C08;
                $body
            }
            "C09" => {
                type $S = c09::C09;
                $body
            }
            "C19" => {
                type $S = c19::C19;
                $body
            }
            "C20" => {
                type $S = c20::C20;
                $body
            }
            _ => $otherwise,
        }
    };
}

// ------------------------------------------------------------------ OS entropy seam
//
// std seeds every thread's HashMap RandomState with one getrandom(2) call. This
// definition overrides libc's symbol for the whole harness binary; OS threads
// that run a simulated process get their bytes from the run seed, all other
// threads get the real system call.
#[no_mangle]
pub unsafe extern "C" fn getrandom(buf: *mut u8, len: usize, flags: u32) -> isize {
    extern "C" {
        fn syscall(num: i64, ...) -> i64;
    }
    if !buf.is_null() && len > 0 {
        let slice = std::slice::from_raw_parts_mut(buf, len);
        if verif_rt::process::fill_entropy(slice) {
            return len as isize;
        }
    }
    const SYS_GETRANDOM: i64 = 318; // x86_64
    syscall(SYS_GETRANDOM, buf, len, flags) as isize
}

// ------------------------------------------------------------------ standard output seam
//
// The simulated program's prints go to fd 1 (pointed at /dev/null in the processes that run
// simulated code). Interposing write(2) lets a scenario stall that descriptor: a thread that
// writes to a stalled stdout is treated as blocked for ever (see rt::stdout_write_blocks).
#[no_mangle]
pub unsafe extern "C" fn write(fd: i32, buf: *const u8, count: usize) -> isize {
    extern "C" {
        fn syscall(num: i64, ...) -> i64;
    }
    if fd == 1 && verif_rt::rt::in_run() && verif_rt::rt::stdout_write_blocks() {
        return count as isize; // swallowed; the writer is marked as blocked
    }
    const SYS_WRITE: i64 = 1; // x86_64
    syscall(SYS_WRITE, fd, buf, count) as isize
}

fn usage() -> ! {
    out!("usage: sim <C05|C08|C09|C19|C20> <quick|thorough> | sim replay <file> | sim selftest-determinism [runs]");
    std::process::exit(2);
}

fn main() {
    let args: Vec<String> = std::env::args().collect();
    if args.len() < 2 {
        usage();
    }
    let _saved_stderr = if std::env::var("VERIF_KEEP_STDERR").is_ok() { -1 } else { verif_rt::process::silence_stderr() };
    // processes that execute simulated code keep their own output apart from what that code prints
    if matches!(args[1].as_str(), "--worker" | "--report" | "--confirm" | "--exec-one" | "replay" | "explore" | "selftest-determinism" | "selftest-primitives") {
        verif_rt::process::silence_stdout();
    }
    verif_rt::process::install_dispatcher();
    let code = match args[1].as_str() {
        "--worker" => worker(&args[2..]),
        "--report" => {
            // --report <prop> <tier> <seed> <index>
            if args.len() < 6 {
                usage();
            }
            let tier = if args[3] == "thorough" { Tier::Thorough } else { Tier::Quick };
            let seed: u64 = args[4].parse().unwrap();
            let idx: u64 = args[5].parse().unwrap();
            with_scenario!(args[2].as_str(), S => reporter_main::<S>(tier, seed, idx), usage())
        }
        "--exec-one" => {
            if args.len() < 4 {
                usage();
            }
            with_scenario!(args[2].as_str(), S => exec_one_main::<S>(&args[3]), usage())
        }
        "--confirm" => {
            if args.len() < 6 {
                usage();
            }
            let tier = if args[3] == "thorough" { Tier::Thorough } else { Tier::Quick };
            let seed: u64 = args[4].parse().unwrap();
            let idx: u64 = args[5].parse().unwrap();
            with_scenario!(args[2].as_str(), S => confirm_main::<S>(tier, seed, idx), usage())
        }
        "replay" => {
            if args.len() < 3 {
                usage();
            }
            replay(&args[2])
        }
        "explore" => {
            // explore <replay file> <count>: run the file's scenario under <count> other run seeds
            if args.len() < 4 {
                usage();
            }
            let text = std::fs::read_to_string(&args[2]).expect("read file");
            let rf: ReplayFile = serde_json::from_str(&text).expect("parse file");
            let count: u64 = args[3].parse().unwrap();
            with_scenario!(rf.property.as_str(), S => explore::<S>(&rf, count), usage())
        }
        "selftest-primitives" => {
            let runs = args.get(2).and_then(|s| s.parse().ok()).unwrap_or(2000);
            prims::selftest(runs)
        }
        "selftest-determinism" => {
            let runs = args.get(2).and_then(|s| s.parse().ok()).unwrap_or(2000);
            selftest_determinism(runs)
        }
        prop => {
            let tier = match args.get(2).map(|s| s.as_str()) {
                Some("quick") | None => Tier::Quick,
                Some("thorough") => Tier::Thorough,
                _ => usage(),
            };
            match prop {
                "C05" => c05::check(tier),
                "C08" => c08::check(tier),
                "C09" => c09::check(tier),
                "C19" => c19::check(tier),
                "C20" => c20::check(tier),
                _ => usage(),
            }
        }
    };
    // per-process scratch directory (workers' directories are removed by their parent as well)
    let _ = std::fs::remove_dir_all(format!("/dev/shm/verif-sim-{}", std::process::id()));
    std::process::exit(code);
}

fn worker(a: &[String]) -> i32 {
    // --worker <prop> <tier> <seed> <runs> <shard> <of> <max_wall_s> <dir>
    if a.len() < 8 {
        usage();
    }
    let tier = if a[1] == "thorough" { Tier::Thorough } else { Tier::Quick };
    let seed: u64 = a[2].parse().unwrap();
    let runs: u64 = a[3].parse().unwrap();
    let shard: u64 = a[4].parse().unwrap();
    let of: u64 = a[5].parse().unwrap();
    let wall: f64 = a[6].parse().unwrap();
    let dir = &a[7];
    let from: u64 = a.get(8).and_then(|s| s.parse().ok()).unwrap_or(0);
    let part: u64 = a.get(9).and_then(|s| s.parse().ok()).unwrap_or(0);
    with_scenario!(a[0].as_str(), S => worker_main::<S>(tier, seed, runs, shard, of, wall, dir, from, part), usage())
}

fn replay(path: &str) -> i32 {
    let text = match std::fs::read_to_string(path) {
        Ok(t) => t,
        Err(e) => {
            out!("HARNESS-ERROR: cannot read {path}: {e}");
            return 2;
        }
    };
    let rf: ReplayFile = match serde_json::from_str(&text) {
        Ok(r) => r,
        Err(e) => {
            out!("HARNESS-ERROR: cannot parse {path}: {e}");
            return 2;
        }
    };
    with_scenario!(rf.property.as_str(), S => replay_file::<S>(&rf, path), {
        out!("HARNESS-ERROR: unknown property {} in {path}", rf.property);
        2
    })
}

/// Print one line per run: index, log hash, schedule hash. Two invocations (in
/// different processes, with different worker counts) must print identical text.
fn selftest_determinism(runs: u64) -> i32 {
    let seed = base_seed();
    let mut lines = vec![];
    let only = std::env::var("VERIF_ONLY").ok();
    for prop in ["C05", "C08", "C09", "C19", "C20"] {
        if only.as_deref().map(|o| o != prop).unwrap_or(false) {
            continue;
        }
        with_scenario!(prop, S => lines.extend(det_lines::<S>(seed, runs)), ());
    }
    for l in lines {
        out!("{l}");
    }
    0
}

fn det_lines<S: Scenario>(seed: u64, runs: u64) -> Vec<String> {
    use std::sync::{Arc, Mutex};
    let out: Arc<Mutex<Vec<(u64, String)>>> = Arc::new(Mutex::new(vec![]));
    let next = Arc::new(std::sync::atomic::AtomicU64::new(0));
    let mut hs = vec![];
    for _ in 0..workers() {
        let out = out.clone();
        let next = next.clone();
        hs.push(std::thread::spawn(move || loop {
            let i = next.fetch_add(1, std::sync::atomic::Ordering::Relaxed);
            if i >= runs {
                break;
            }
            let run_seed = verif_rt::prng::derive(verif_rt::prng::derive(seed, S::LABEL), i);
            let sc = S::generate(run_seed, Tier::Quick, i);
            let o = sc.execute(&Plan::Seeded);
            let mut th = verif_rt::prng::Fnv::default();
            for t in &o.traces {
                for x in t {
                    th.u64(*x as u64);
                }
            }
            let line = format!(
                "{} {} log={:016x} hist={:016x} sched={:016x} viol={}",
                S::PROP,
                i,
                o.log_hash,
                o.history_hash,
                th.0,
                o.violation.as_ref().map(|v| v.class.as_str()).unwrap_or("-")
            );
            out.lock().unwrap().push((i, line));
        }));
    }
    for h in hs {
        h.join().unwrap();
    }
    let mut v = out.lock().unwrap().clone();
    v.sort();
    v.into_iter().map(|x| x.1).collect()
}

fn explore<S: Scenario>(rf: &ReplayFile, count: u64) -> i32 {
    let mut hist: std::collections::BTreeMap<String, u64> = Default::default();
    let mut first_bad: Option<(u64, String)> = None;
    let mut all = RunStats::default();
    for i in 0..count {
        let mut v = rf.scenario.clone();
        let seed = verif_rt::prng::derive(rf.run_seed, 7_000 + i);
        v["run_seed"] = serde_json::json!(seed);
        let sc: S = serde_json::from_value(v).expect("scenario");
        let o = sc.execute(&Plan::Seeded);
        let key = o.violation.as_ref().map(|x| x.class.clone()).unwrap_or_else(|| "ok".into());
        if o.violation.is_some() && first_bad.is_none() {
            first_bad = Some((seed, o.violation.as_ref().unwrap().detail.clone()));
        }
        *hist.entry(key).or_insert(0) += 1;
        all.merge(&o.stats, &[]);
    }
    out!("explore: {hist:?}");
    out!("faults: {:?}", all.faults);
    out!("probes: {:?}", all.probes);
    if let Some((seed, d)) = first_bad {
        out!("first failing run_seed {seed}: {d}");
    }
    0
}
