//! Self-test of the simulator's own blocking primitives (virtual-time timeouts):
//! small programs with known outcomes under many seeded schedules.

use crate::common::*;
use std::sync::{Arc, Mutex as StdMutex};
use std::time::Duration;
use verif_rt::prng::{derive, Rng};
use verif_rt::shim::std as sim_std;
use verif_rt::{run_process, ProcSpec, Status};

use sim_std::sync::mpsc;
use sim_std::sync::{Condvar, Mutex};
use sim_std::thread;
use sim_std::time::Instant;

type Check = fn() -> Result<(), String>;

fn bounded_buffer() -> Result<(), String> {
    // 2 producers, 1 consumer, capacity 2, condition variables both ways
    let q = Arc::new((Mutex::new(Vec::<u32>::new()), Condvar::new(), Condvar::new()));
    let mut hs = vec![];
    for p in 0..2u32 {
        let q = q.clone();
        hs.push(thread::spawn(move || {
            for i in 0..4u32 {
                let (m, not_full, not_empty) = &*q;
                let mut g = m.lock().unwrap();
                while g.len() >= 2 {
                    g = not_full.wait(g).unwrap();
                }
                g.push(p * 100 + i);
                not_empty.notify_one();
            }
        }));
    }
    let mut got = vec![];
    for _ in 0..8 {
        let (m, not_full, not_empty) = &*q;
        let mut g = m.lock().unwrap();
        while g.is_empty() {
            g = not_empty.wait(g).unwrap();
        }
        got.push(g.remove(0));
        not_full.notify_one();
    }
    for h in hs {
        h.join().map_err(|_| "producer panicked".to_string())?;
    }
    got.sort();
    if got != vec![0, 1, 2, 3, 100, 101, 102, 103] {
        return Err(format!("bounded buffer delivered {got:?}"));
    }
    Ok(())
}

fn condvar_timeout_fires() -> Result<(), String> {
    let m = Mutex::new(false);
    let cv = Condvar::new();
    let t0 = Instant::now();
    let g = m.lock().unwrap();
    let (g, r) = cv.wait_timeout(g, Duration::from_millis(5)).unwrap();
    if !r.timed_out() {
        return Err("wait_timeout without a notifier did not time out".into());
    }
    if t0.elapsed() < Duration::from_millis(5) {
        return Err(format!("timed out after {:?} of virtual time, before the 5 ms deadline", t0.elapsed()));
    }
    drop(g);
    // wait_timeout_while with a predicate that stays true
    let g = m.lock().unwrap();
    let (_g, r) = cv.wait_timeout_while(g, Duration::from_millis(2), |done| !*done).unwrap();
    if !r.timed_out() {
        return Err("wait_timeout_while did not time out".into());
    }
    Ok(())
}

fn condvar_notified_before_deadline() -> Result<(), String> {
    let p = Arc::new((Mutex::new(false), Condvar::new()));
    let p2 = p.clone();
    let h = thread::spawn(move || {
        thread::sleep(Duration::from_millis(1));
        let (m, cv) = &*p2;
        *m.lock().unwrap() = true;
        cv.notify_all();
    });
    let (m, cv) = &*p;
    let g = m.lock().unwrap();
    let (g, r) = cv.wait_timeout_while(g, Duration::from_millis(50), |done| !*done).unwrap();
    if r.timed_out() || !*g {
        return Err(format!("notified after 1 ms but timed_out={} flag={}", r.timed_out(), *g));
    }
    drop(g);
    h.join().map_err(|_| "notifier panicked".to_string())?;
    Ok(())
}

fn recv_timeout_semantics() -> Result<(), String> {
    let (tx, rx) = mpsc::sync_channel::<u32>(1);
    let t0 = Instant::now();
    match rx.recv_timeout(Duration::from_millis(3)) {
        Err(mpsc::RecvTimeoutError::Timeout) => {}
        other => return Err(format!("expected Timeout, got {other:?}")),
    }
    if t0.elapsed() < Duration::from_millis(3) {
        return Err("recv_timeout returned before its deadline".into());
    }
    let tx2 = tx.clone();
    let h = thread::spawn(move || {
        thread::sleep(Duration::from_millis(1));
        tx2.send(7).unwrap();
    });
    match rx.recv_timeout(Duration::from_millis(100)) {
        Ok(7) => {}
        other => return Err(format!("expected Ok(7), got {other:?}")),
    }
    h.join().map_err(|_| "sender panicked".to_string())?;
    drop(tx);
    match rx.recv_timeout(Duration::from_millis(100)) {
        Err(mpsc::RecvTimeoutError::Disconnected) => Ok(()),
        other => Err(format!("expected Disconnected, got {other:?}")),
    }
}

fn park_unpark() -> Result<(), String> {
    let me = thread::current();
    me.unpark();
    thread::park(); // token available: returns at once
    let t0 = Instant::now();
    thread::park_timeout(Duration::from_millis(2));
    if t0.elapsed() < Duration::from_millis(2) {
        return Err("park_timeout returned early without a token".into());
    }
    let h = thread::spawn(|| {
        thread::park();
        5u32
    });
    thread::sleep(Duration::from_millis(1));
    h.thread().unpark();
    match h.join() {
        Ok(5) => Ok(()),
        other => Err(format!("parked thread returned {:?}", other.ok())),
    }
}

fn mutex_excludes() -> Result<(), String> {
    let c = Arc::new(Mutex::new(0u32));
    let hs: Vec<_> = (0..3)
        .map(|_| {
            let c = c.clone();
            thread::spawn(move || {
                for _ in 0..5 {
                    let mut g = c.lock().unwrap();
                    let v = *g;
                    thread::yield_now();
                    *g = v + 1;
                }
            })
        })
        .collect();
    for h in hs {
        h.join().map_err(|_| "worker panicked".to_string())?;
    }
    let v = *c.lock().unwrap();
    if v != 15 {
        return Err(format!("counter is {v}, expected 15"));
    }
    Ok(())
}

fn lost_wakeup_is_a_deadlock() -> Result<(), String> {
    // nobody ever notifies: the run must end as WEDGED, not hang and not pass
    let m = Mutex::new(());
    let cv = Condvar::new();
    let g = m.lock().unwrap();
    let _g = cv.wait(g).unwrap();
    Err("wait() without a notifier returned".into())
}

fn pool_runs_all_jobs() -> Result<(), String> {
    // 5 jobs on a pool of 2 threads: all run, never more than 2 at a time
    let (tx, rx) = mpsc::sync_channel::<u32>(8);
    let running = Arc::new(sim_std::sync::atomic::AtomicUsize::new(0));
    let peak = Arc::new(sim_std::sync::atomic::AtomicUsize::new(0));
    for j in 0..5u32 {
        let tx = tx.clone();
        let running = running.clone();
        let peak = peak.clone();
        verif_rt::shim::rayon::spawn(move || {
            use sim_std::sync::atomic::Ordering::SeqCst;
            let now = running.fetch_add(1, SeqCst) + 1;
            peak.fetch_max(now, SeqCst);
            thread::sleep(Duration::from_micros(50));
            running.fetch_sub(1, SeqCst);
            tx.send(j).unwrap();
        });
    }
    drop(tx);
    let mut got: Vec<u32> = rx.iter().collect();
    got.sort();
    if got != vec![0, 1, 2, 3, 4] {
        return Err(format!("pool jobs delivered {got:?}"));
    }
    let p = peak.load(sim_std::sync::atomic::Ordering::SeqCst);
    if p > 2 {
        return Err(format!("{p} jobs ran at the same time on a pool of 2"));
    }
    Ok(())
}

fn pool_exhaustion_is_a_deadlock() -> Result<(), String> {
    // three jobs that wait for one another on a pool of 2: whichever two start, the third cannot
    let barrier = Arc::new(sim_std::sync::Barrier::new(3));
    let (done_tx, done_rx) = mpsc::sync_channel::<u32>(4);
    for j in 0..3u32 {
        let barrier = barrier.clone();
        let done = done_tx.clone();
        verif_rt::shim::rayon::spawn(move || {
            barrier.wait();
            done.send(j).unwrap();
        });
    }
    drop(done_tx);
    let a = done_rx.recv().map_err(|e| e.to_string())?;
    Err(format!("a blocked pool let job results through: {a}"))
}

pub fn selftest(runs: u64) -> i32 {
    let programs: Vec<(&str, Check, bool)> = vec![
        ("bounded_buffer", bounded_buffer, false),
        ("condvar_timeout_fires", condvar_timeout_fires, false),
        ("condvar_notified_before_deadline", condvar_notified_before_deadline, false),
        ("recv_timeout_semantics", recv_timeout_semantics, false),
        ("park_unpark", park_unpark, false),
        ("mutex_excludes", mutex_excludes, false),
        ("lost_wakeup_is_a_deadlock", lost_wakeup_is_a_deadlock, true),
        ("pool_runs_all_jobs", pool_runs_all_jobs, false),
        ("pool_exhaustion_is_a_deadlock", pool_exhaustion_is_a_deadlock, true),
    ];
    let mut bad = 0;
    for (name, prog, expect_wedged) in programs {
        let mut fails = 0u64;
        let mut first = String::new();
        for i in 0..runs {
            let seed = derive(derive(base_seed(), 4242), i);
            let mut rng = Rng::new(seed);
            let mode = SMode::draw(&mut rng);
            let mut spec = ProcSpec::new(mode.to_mode(), derive(seed, 1), derive(seed, 2));
            spec.step_cap = 50_000;
            spec.pool_size = 2;
            let slot: Arc<StdMutex<Option<Result<(), String>>>> = Arc::new(StdMutex::new(None));
            let s2 = slot.clone();
            let r = run_process(&spec, move || {
                let res = prog();
                *s2.lock().unwrap() = Some(res);
            });
            let res = slot.lock().unwrap().take();
            let ok = if expect_wedged {
                matches!(r.status, Status::Wedged(_)) && res.is_none()
            } else {
                r.status == Status::Completed && res == Some(Ok(()))
            };
            if !ok {
                fails += 1;
                if first.is_empty() {
                    first = format!("seed index {i} mode {mode:?}: status {:?}, result {:?}", r.status, res);
                }
            }
        }
        if fails > 0 {
            bad += 1;
            out!("PRIMITIVE-SELFTEST FAIL {name}: {fails}/{runs} runs; first: {first}");
        } else {
            out!("primitive selftest ok: {name} ({runs} seeded schedules)");
        }
    }
    if bad == 0 {
        0
    } else {
        2
    }
}
