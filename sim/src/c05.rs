//! C05 — the threaded pipeline is observationally a sequential map under every
//! schedule and every relative processing speed.

use crate::common::*;
use serde::{Deserialize, Serialize};
use std::sync::{Arc, Mutex};
use text_utils::data::loading::{BufferedIterator, PipelineIterator};
use text_utils::data::verif::InferenceLoaderDriver;
use text_utils::data::Pipeline;
use text_utils::tokenization::{tokenizer, ByteGroups, ByteTokenizerConfig, GroupAggregation, SpecialConfig, TokenizeConfig, TokenizerConfig};
use text_utils::windows::{windows, WindowConfig};
use verif_rt::prng::{derive, Rng};
use verif_rt::rt::{self, Kind};
use verif_rt::{run_process, ProcSpec, Status};

#[derive(Serialize, Deserialize, Clone, Debug, PartialEq)]
pub enum Shape {
    /// src.pipe(f, w)
    Pipe,
    /// src.pipe(f, w).buffered(b)
    PipeBuffered(usize),
    /// src.pipe(f, w).pipe(g, w2)
    PipePipe(u8),
    /// src.buffered(b).pipe(f, w)
    BufferedPipe(usize),
    /// the real InferenceLoader through the driver hook (its pipe stage runs the real
    /// window + tokenize pipeline): (buffer_size, batch_limit, window max chars; 0 = full)
    Inference(usize, usize, usize),
}

#[derive(Serialize, Deserialize, Clone, Debug)]
pub struct C05 {
    pub run_seed: u64,
    pub mode: SMode,
    pub n: usize,
    pub w: u8,
    pub shape: Shape,
    /// virtual processing time of item i (ticks)
    pub fn_delay: Vec<u32>,
    /// virtual time the upstream needs to hand out item i (the ticket lock is held meanwhile)
    pub src_delay: Vec<u32>,
    /// consumer stall after receiving item i
    pub stall: Vec<u32>,
    /// the upstream reports an exact size_hint
    #[serde(default)]
    pub hinted: bool,
    /// the consumer calls next() twice more after the end of the stream
    #[serde(default)]
    pub poll_after_end: bool,
    /// Some(window): demand-driven input - item i is produced only after the consumer has
    /// received item i - window (window 1: strictly one at a time)
    #[serde(default)]
    pub closed_loop: Option<usize>,
    /// positional consumption: call c of the consumer is next() if skips[c % len] == 0 and
    /// nth(skips[c % len] - 1) otherwise (what skip(), step_by() and nth() do); empty = next() only
    #[serde(default)]
    pub skips: Vec<u8>,
    /// threads of the process's shared worker pool (only matters to code that submits jobs to it)
    #[serde(default = "default_pool")]
    pub pool: u8,
    /// history of the process before the observed pipe: `.0` earlier pipes with `.1` workers each
    /// over a 5-item input, each abandoned after `.2` items (>= 5: consumed completely)
    #[serde(default)]
    pub earlier: Option<(u16, u8, u8)>,
    /// plain pipe only: consume with a consuming adaptor of the concrete type instead of next():
    /// 1 = count(), 2 = last(), 3 = for_each()
    #[serde(default)]
    pub terminal: u8,
    /// the consumer asks the iterator for its size_hint() before every next() / nth() (what
    /// collect(), extend() and progress bars do); that must never block or change the stream
    #[serde(default)]
    pub ask_hint: bool,
    /// CPUs available to the process (what available_parallelism reports)
    #[serde(default = "default_cpus")]
    pub cpus: u8,
}

fn default_cpus() -> u8 {
    16
}

fn default_pool() -> u8 {
    4
}

pub fn f_val(x: u64) -> u64 {
    x.wrapping_mul(0x9E37_79B9_7F4A_7C15) ^ 0x5bd1_e995
}
pub fn g_val(x: u64) -> u64 {
    x.rotate_left(17).wrapping_add(0x1234_5678_9abc_def1)
}

pub fn inference_text(i: u64) -> String {
    format!("item {i}: {}", "xyz ".repeat((i % 7) as usize))
}

fn inference_cfg(max_chars: usize) -> (TokenizerConfig, WindowConfig) {
    (
        TokenizerConfig {
            tokenize: TokenizeConfig::Byte(ByteTokenizerConfig {
                use_graphemes: true,
                pad_to_multiple_of: None,
                groups: ByteGroups::Bytes,
                aggregation: GroupAggregation::Mean,
            }),
            special: SpecialConfig::default(),
        },
        if max_chars == 0 { WindowConfig::Full(true) } else { WindowConfig::Character(max_chars, max_chars / 4, true) },
    )
}

/// value that identifies (item, window, token ids) of one inference item
fn inference_val(item: u64, window: u64, ids: &[u32]) -> u64 {
    let mut h = verif_rt::prng::Fnv::default();
    h.u64(item);
    h.u64(window);
    for t in ids {
        h.u64(*t as u64);
    }
    h.0
}

pub struct Src {
    pub next: usize,
    pub n: usize,
    pub delay: Arc<Vec<u32>>,
    /// report an exact size_hint like a Vec or a range would (the default iterator hint is (0, None))
    pub hinted: bool,
    /// demand-driven input: item i only becomes available once the consumer has received
    /// `gate.0` >= i + 1 - window outputs (a closed loop; None = always available)
    pub gate: Option<(Arc<Gate>, usize)>,
}

/// what the consumer has seen so far + the task that waits for it (at most one: the ticket
/// lock is held while the upstream blocks)
pub struct Gate {
    pub seen: std::sync::atomic::AtomicUsize,
    pub waiter: std::sync::atomic::AtomicU32,
    /// the feed was closed: the upstream ends instead of waiting
    pub closed: std::sync::atomic::AtomicBool,
}

impl Gate {
    pub fn new() -> Self {
        Gate {
            seen: std::sync::atomic::AtomicUsize::new(0),
            waiter: std::sync::atomic::AtomicU32::new(u32::MAX),
            closed: std::sync::atomic::AtomicBool::new(false),
        }
    }
    /// feeding side: no more input will come
    pub fn close(&self) {
        self.closed.store(true, std::sync::atomic::Ordering::SeqCst);
        let w = self.waiter.swap(u32::MAX, std::sync::atomic::Ordering::SeqCst);
        if w != u32::MAX {
            verif_rt::timed::wake(w);
        }
    }
    /// consumer side: one more output seen
    pub fn advance(&self) {
        self.seen.fetch_add(1, std::sync::atomic::Ordering::SeqCst);
        let w = self.waiter.swap(u32::MAX, std::sync::atomic::Ordering::SeqCst);
        if w != u32::MAX {
            verif_rt::timed::wake(w);
        }
    }
}

impl Iterator for Src {
    type Item = u64;
    fn size_hint(&self) -> (usize, Option<usize>) {
        if self.hinted && self.n != usize::MAX {
            let left = self.n - self.next.min(self.n);
            (left, Some(left))
        } else {
            (0, None)
        }
    }
    fn next(&mut self) -> Option<u64> {
        if self.next >= self.n {
            rt::log(Kind::PullEnd, 0, 0);
            return None;
        }
        let i = self.next;
        if let Some((seen, window)) = &self.gate {
            // block (the ticket lock is held, as it would be for any slow upstream) until the
            // consumer has seen enough of the earlier outputs
            let need = (i + 1).saturating_sub(*window);
            let gate = seen.clone();
            verif_rt::timed::wait_until(verif_rt::timed::FOREVER, move || {
                if gate.seen.load(std::sync::atomic::Ordering::SeqCst) >= need || gate.closed.load(std::sync::atomic::Ordering::SeqCst) {
                    true
                } else {
                    gate.waiter.store(rt::current_task(), std::sync::atomic::Ordering::SeqCst);
                    false
                }
            });
            if seen.seen.load(std::sync::atomic::Ordering::SeqCst) < need {
                // closed before this item was fed
                rt::log(Kind::PullEnd, 1, 0);
                return None;
            }
        }
        self.next += 1;
        let d = self.delay.get(i).copied().unwrap_or(0);
        if d > 0 {
            rt::sleep_ticks(d as u64);
        }
        rt::log(Kind::Pull, i as u64, 0);
        Some(i as u64)
    }
}

fn delays(rng: &mut Rng, n: usize) -> Vec<u32> {
    let kind = rng.below(8);
    // one item (or pause) that takes seconds of virtual time: anything that waits with a
    // timeout for its turn will see the timeout fire
    let long_at = rng.below(n.max(1) as u64) as usize;
    // 1.2 s .. 4 s mostly, sometimes 8 s .. 90 s (typical values of time-outs people choose)
    let long = if rng.chance(0.7) { rng.range(120_000, 400_000) as u32 } else { rng.range(800_000, 9_000_000) as u32 };
    (0..n)
        .map(|i| match kind {
            0 => 0,
            1 => 3,
            2 => (i as u32) % 7,                       // increasing ramps
            3 => 12u32.saturating_sub((i as u32) % 12), // decreasing
            4 => {
                if i % 5 == 1 {
                    40
                } else {
                    0
                }
            } // stragglers
            5 => rng.below(20) as u32,
            6 => {
                if rng.chance(0.1) {
                    rng.range(20, 80) as u32
                } else {
                    0
                }
            }
            _ => {
                if i == long_at {
                    long
                } else {
                    0
                }
            }
        })
        .collect()
}

impl Scenario for C05 {
    const PROP: &'static str = "C05";
    const LABEL: u64 = 5;

    fn generate(run_seed: u64, tier: Tier, _index: u64) -> Self {
        let mut rng = Rng::new(derive(run_seed, 1));
        let max_n = if tier == Tier::Quick { 24 } else { 40 };
        let n = match rng.below(100) {
            0..=9 => rng.usize(0, 2),
            // lengths around the wrap-around points of small integer types (rare: such runs are long)
            10 => *rng.pick(&[255usize, 256, 257, 512]),
            _ => rng.usize(0, max_n),
        };
        let w = match rng.below(400) {
            0..=32 => 0,
            // extreme worker counts (u8 range), only with tiny inputs: rare
            33 => 255,
            34 => 16,
            _ => rng.range(1, 6) as u8,
        };
        let n = if w >= 16 { n.min(4) } else { n };
        let shape = match rng.below(10) {
            0..=4 => Shape::Pipe,
            5..=6 => Shape::PipeBuffered(if rng.chance(0.05) { *rng.pick(&[16usize, 100]) } else { rng.usize(0, 4) }),
            7 => Shape::PipePipe(rng.range(0, 4) as u8),
            8 => Shape::Inference(rng.usize(0, 3), rng.usize(1, 5), *rng.pick(&[0usize, 8, 12, 20])),
            _ => Shape::BufferedPipe(rng.usize(0, 4)),
        };
        let fn_delay = delays(&mut rng, n);
        let src_delay = if rng.chance(0.3) { delays(&mut rng, n) } else { vec![0; n] };
        let stall = if rng.chance(0.3) { delays(&mut rng, n) } else { vec![0; n] };
        let hinted = rng.chance(0.5);
        let poll_after_end = rng.chance(0.3);
        // only for the plain pipe: with a buffer or a second stage in between, "seen by the
        // consumer" lags behind by construction
        let closed_loop = if shape == Shape::Pipe && rng.chance(0.15) { Some(rng.usize(1, 3)) } else { None };
        // not with a closed loop: nth(k) cannot report the items it skips, the gate would never open
        let skips: Vec<u8> = if closed_loop.is_none() && rng.chance(0.12) {
            match rng.below(4) {
                0 => vec![rng.range(1, 9) as u8],                    // step_by
                1 => vec![rng.range(2, (n as u64 + 2).min(40)) as u8, 0], // skip(k) then next()
                _ => (0..rng.usize(1, 4)).map(|_| rng.below(5) as u8).collect(),
            }
        } else {
            vec![]
        };
        C05 { run_seed, mode: SMode::draw(&mut rng), n, w, shape, fn_delay, src_delay, stall, hinted, poll_after_end, closed_loop, skips, pool: *rng.pick(&[1u8, 2, 2, 3, 4, 8]), earlier: None, terminal: 0, ask_hint: false, cpus: 16 }.with_history(&mut rng, tier)
    }

    fn run_seed(&self) -> u64 {
        self.run_seed
    }

    fn size(&self) -> u64 {
        self.n as u64 * 4
            + self.w as u64
            + self.earlier.map_or(0, |(c, w, _)| 2 + c as u64 * w as u64)
            + if self.shape == Shape::Pipe { 0 } else { 3 }
            + self.fn_delay.iter().chain(&self.src_delay).chain(&self.stall).filter(|d| **d > 0).count() as u64
    }

    fn shrink(&self) -> Vec<Self> {
        let mut v = vec![];
        let cut = |s: &C05, n: usize| {
            let mut c = s.clone();
            c.n = n;
            c.fn_delay.truncate(n);
            c.src_delay.truncate(n);
            c.stall.truncate(n);
            c
        };
        if self.n > 1 {
            v.push(cut(self, self.n / 2));
        }
        if self.n > 0 {
            v.push(cut(self, self.n - 1));
        }
        if self.shape != Shape::Pipe {
            let mut c = self.clone();
            c.shape = Shape::Pipe;
            v.push(c);
        }
        if self.w > 1 {
            let mut c = self.clone();
            c.w -= 1;
            v.push(c);
        }
        for which in 0..3 {
            let mut c = self.clone();
            let d = match which {
                0 => &mut c.stall,
                1 => &mut c.src_delay,
                _ => &mut c.fn_delay,
            };
            if d.iter().any(|x| *x > 0) {
                d.iter_mut().for_each(|x| *x = 0);
                v.push(c);
            }
        }
        if self.hinted {
            let mut c = self.clone();
            c.hinted = false;
            v.push(c);
        }
        if self.closed_loop.is_some() {
            let mut c = self.clone();
            c.closed_loop = None;
            v.push(c);
        }
        if self.terminal != 0 {
            let mut c = self.clone();
            c.terminal = 0;
            v.push(c);
        }
        if self.ask_hint {
            let mut c = self.clone();
            c.ask_hint = false;
            v.push(c);
        }
        if self.cpus != 16 {
            let mut c = self.clone();
            c.cpus = 16;
            v.push(c);
        }
        if let Some((count, w, take)) = self.earlier {
            let mut c = self.clone();
            c.earlier = None;
            v.push(c);
            if count > 1 {
                for nc in [count / 2, count - 1] {
                    let mut c = self.clone();
                    c.earlier = Some((nc, w, take));
                    v.push(c);
                }
            }
            if w > 1 {
                let mut c = self.clone();
                c.earlier = Some((count, w - 1, take));
                v.push(c);
            }
        }
        if !self.skips.is_empty() {
            let mut c = self.clone();
            c.skips = vec![];
            v.push(c);
            if self.skips.len() > 1 {
                let mut c = self.clone();
                c.skips.truncate(1);
                v.push(c);
            }
        }
        if self.mode != SMode::Uniform {
            let mut c = self.clone();
            c.mode = SMode::Uniform;
            v.push(c);
        }
        v
    }

    fn execute(&self, plan: &Plan) -> Outcome {
        let mut spec = ProcSpec::new(self.mode.to_mode(), derive(self.run_seed, 100), derive(self.run_seed, 200));
        // generous: the worst correct run observed needs about 4 000 decisions per item (priority
        // scheduling of busy-waiting workers); see the probe max_step_cap_use_permille
        spec.step_cap = 200_000 + 40_000 * self.n as u64 + self.earlier.map_or(0, |(c, w, _)| 1_000 * c as u64 * w as u64);
        spec.pool_size = self.pool as u32;
        spec.cpus = self.cpus as u32;
        if let Plan::Replay { traces, strict } = plan {
            spec = spec.replaying(traces.first().cloned().unwrap_or_default(), *strict);
        }
        let spec_cap = spec.step_cap;
        let sc = self.clone();
        let result: Arc<Mutex<Vec<u64>>> = Arc::new(Mutex::new(vec![]));
        let res2 = result.clone();
        let r = run_process(&spec, move || {
            let fd = Arc::new(sc.fn_delay.clone());
            let f: Pipeline<u64, u64> = Arc::new(move |x: u64| {
                rt::log(Kind::FnStart, x, 0);
                let d = fd.get(x as usize).copied().unwrap_or(0);
                if d > 0 {
                    rt::sleep_ticks(d as u64);
                }
                rt::log(Kind::FnEnd, x, 0);
                f_val(x)
            });
            let g: Pipeline<u64, u64> = Arc::new(move |x: u64| {
                rt::log(Kind::FnStart, x, 1);
                rt::log(Kind::FnEnd, x, 1);
                g_val(x)
            });
            if let Some((count, w, take)) = sc.earlier {
                for _ in 0..count {
                    let h: Pipeline<u64, u64> = Arc::new(|x: u64| x + 1);
                    let mut p = (0..5u64).pipe(h, w);
                    for _ in 0..take {
                        if p.next().is_none() {
                            break;
                        }
                    }
                    drop(p);
                    // whether and when its workers go away is not this property's business
                }
                rt::log(Kind::Note, 6, count as u64);
            }
            // threads of earlier pipes are not waited for at the end
            let first_thread = rt::threads_registered();
            let seen = Arc::new(Gate::new());
            let src = Src {
                next: 0,
                n: sc.n,
                delay: Arc::new(sc.src_delay.clone()),
                hinted: sc.hinted,
                gate: sc.closed_loop.map(|w| (seen.clone(), w)),
            };
            if sc.terminal != 0 && sc.shape == Shape::Pipe {
                // the concrete type: an override of count / last / fold on it is what runs
                let p = src.pipe(f, sc.w);
                let vals: Vec<u64> = match sc.terminal {
                    1 => vec![p.count() as u64],
                    2 => p.last().into_iter().collect(),
                    _ => {
                        let mut v = vec![];
                        p.for_each(|x| v.push(x));
                        v
                    }
                };
                rt::log(Kind::RecvEnd, vals.len() as u64, 0);
                *res2.lock().unwrap() = vals;
                rt::wait_threads_exit_since(first_thread);
                return;
            }
            let mut it: Box<dyn Iterator<Item = u64>> = match sc.shape {
                Shape::Pipe => Box::new(src.pipe(f, sc.w)),
                Shape::PipeBuffered(b) => Box::new(src.pipe(f, sc.w).buffered(b)),
                Shape::PipePipe(w2) => Box::new(src.pipe(f, sc.w).pipe(g, w2)),
                Shape::BufferedPipe(b) => Box::new(src.buffered(b).pipe(f, sc.w)),
                Shape::Inference(b, bl, max_chars) => {
                    let (tok, win) = inference_cfg(max_chars);
                    let texts = src.map(|i| Ok(inference_text(i)));
                    let mut drv = InferenceLoaderDriver::new(texts, tok, false, win, sc.w, b, bl, false, 1, false).expect("inference loader");
                    let mut pending: Vec<u64> = vec![];
                    Box::new(std::iter::from_fn(move || {
                        if pending.is_empty() {
                            match drv.next_batch() {
                                Ok(Some(batch)) => {
                                    pending = batch
                                        .iter()
                                        .rev()
                                        .map(|it| inference_val(it.item_idx as u64, it.window_idx as u64, &it.tokenization.token_ids))
                                        .collect();
                                }
                                _ => return None,
                            }
                        }
                        pending.pop()
                    }))
                }
            };
            let mut k = 0usize;
            let mut pos = 0usize; // position in the stream of the next item
            loop {
                let s = if sc.skips.is_empty() { 0 } else { sc.skips[k % sc.skips.len()] as usize };
                if sc.ask_hint {
                    let _ = it.size_hint();
                }
                let got = if s == 0 { it.next() } else { it.nth(s - 1) };
                let Some(v) = got else { break };
                pos += s.saturating_sub(1);
                rt::log(Kind::Recv, pos as u64, v);
                pos += 1;
                res2.lock().unwrap().push(v);
                seen.advance();
                let d = sc.stall.get(k).copied().unwrap_or(0);
                if d > 0 {
                    rt::sleep_ticks(d as u64);
                }
                k += 1;
                if k > 8 * sc.n + 64 {
                    break; // never-ending stream: the oracle reports it
                }
            }
            rt::log(Kind::RecvEnd, k as u64, 0);
            if sc.poll_after_end {
                // an exhausted iterator stays exhausted (and must not block)
                for _ in 0..2 {
                    if let Some(v) = it.next() {
                        rt::log(Kind::Recv, pos as u64, v);
                        res2.lock().unwrap().push(v);
                        pos += 1;
                    }
                }
                rt::log(Kind::Note, 3, 0);
            }
            drop(it);
            rt::wait_threads_exit_since(first_thread);
        });

        let mut stats = RunStats::default();
        stats.absorb_proc(&r);
        stats.param("n", self.n as i64);
        stats.probe_max("max_decisions_in_one_run", r.decisions);
        stats.probe_max("max_step_cap_use_permille", r.decisions * 1000 / spec_cap);
        stats.param("w", self.w as i64);
        if self.ask_hint {
            stats.fault("consumer_asks_for_size_hint_before_every_call");
        }
        if let Some((c, _, _)) = self.earlier {
            stats.fault("earlier_pipes_in_the_same_process");
            if c >= 64 {
                stats.fault("64_or_more_earlier_pipes_abandoned_early");
            }
        }
        let got = result.lock().unwrap().clone();
        let violation = self.judge(&r, &got, &mut stats);
        Outcome {
            violation,
            nontrivial: r.max_tasks >= 2 && r.switches >= 2,
            diverged: r.status == Status::ReplayDiverged,
            traces: vec![r.trace],
            log_hash: r.log_hash,
            history_hash: r.history_hash,
            stats,
        }
    }
}

impl C05 {
    /// a long-running trainer creates a pipe per epoch / validation run and often abandons it early
    fn with_history(mut self, rng: &mut Rng, tier: Tier) -> Self {
        let p = rng.below(1000);
        let many = if tier == Tier::Quick { 4 } else { 8 };
        self.earlier = if p < 40 {
            Some((rng.range(1, 5) as u16, rng.range(1, 4) as u8, rng.below(7) as u8))
        } else if p < 40 + many {
            // enough to exhaust any budget of a few hundred (threads, ids of a small integer type ...)
            Some((*rng.pick(&[64u16, 130, 260]), *rng.pick(&[1u8, 2, 4]), rng.below(3) as u8))
        } else {
            None
        };
        if self.shape == Shape::Pipe && self.skips.is_empty() && self.closed_loop.is_none() && rng.chance(0.06) {
            self.terminal = rng.range(1, 4) as u8;
        }
        // a pinned thread, a one-CPU container, a big machine
        self.cpus = *rng.pick(&[16u8, 16, 16, 1, 2, 4, 64]);
        self.ask_hint = rng.chance(0.25);
        self
    }

    fn expected(&self) -> Vec<u64> {
        if let Shape::Inference(_, _, max_chars) = self.shape {
            // sequential reference: window and tokenize every text, in order
            let (tok, win) = inference_cfg(max_chars);
            let tok = tokenizer(tok).expect("tokenizer");
            let mut v = vec![];
            for i in 0..self.n as u64 {
                let text = inference_text(i);
                for (w, win) in windows(&text, &win).expect("windows").iter().enumerate() {
                    let ids = tok.tokenize(win.str, false).expect("tokenize").token_ids;
                    v.push(inference_val(i, w as u64, &ids));
                }
            }
            return v;
        }
        (0..self.n as u64)
            .map(|x| match self.shape {
                Shape::PipePipe(_) => g_val(f_val(x)),
                _ => f_val(x),
            })
            .collect()
    }

    fn judge(&self, r: &verif_rt::ProcResult, got: &[u64], stats: &mut RunStats) -> Option<Violation> {
        let v = |class: &str, detail: String| Some(Violation { class: class.into(), detail });
        // threads of the observed pipe: spawned after the process history (Note 6) ended
        let history_mark = r.events.iter().find(|e| e.kind == Kind::Note && e.a == 6).map(|e| e.step);
        let history_end = history_mark.unwrap_or(0);
        if self.earlier.is_some() && r.status == Status::Livelock {
            // Threads that earlier pipes left behind (not this property's business: that is C09)
            // share the step budget of the run. If such threads are still running when the budget
            // ends, the run says nothing about the observed pipe.
            let leftovers = match history_mark {
                None => !r.live_threads().is_empty(),
                Some(m) => r.live_threads().iter().any(|t| t.spawn_step < m),
            };
            if leftovers {
                stats.probe("inconclusive_step_budget_used_up_by_threads_of_earlier_pipes", 1);
                return None;
            }
        }
        let live_observed = || -> Vec<String> { r.live_threads().iter().filter(|t| t.spawn_step >= history_end).map(|t| t.name.clone()).collect() };
        match &r.status {
            Status::Completed => {}
            Status::ReplayDiverged => return None,
            s => {
                let live = live_observed();
                return v(
                    &format!("no-termination:{}", s.class()),
                    format!("run ended as {:?}; received {}/{} items; threads still alive: {:?}", s, got.len(), self.n, live),
                );
            }
        }
        let mut exp = self.expected();
        if !self.skips.is_empty() {
            // the same positional calls on the sequential result
            let mut it = exp.clone().into_iter();
            let mut sel = vec![];
            let mut c = 0usize;
            loop {
                let s = self.skips[c % self.skips.len()] as usize;
                match if s == 0 { it.next() } else { it.nth(s - 1) } {
                    Some(v) => sel.push(v),
                    None => break,
                }
                c += 1;
            }
            exp = sel;
            stats.probe("runs_with_positional_consumption_nth", 1);
        }
        if self.terminal != 0 && self.shape == Shape::Pipe {
            exp = match self.terminal {
                1 => vec![exp.len() as u64],
                2 => exp.last().copied().into_iter().collect(),
                _ => exp,
            };
            stats.probe("runs_consumed_with_count_last_or_for_each", 1);
        }
        if got != exp {
            // classify: lost / duplicated / reordered / wrong value
            let class = if got.len() < exp.len() && got.iter().all(|x| exp.contains(x)) {
                "output:lost"
            } else if got.len() > exp.len() {
                "output:extra"
            } else {
                let mut a = got.to_vec();
                let mut b = exp.clone();
                a.sort();
                b.sort();
                if a == b {
                    "output:reordered"
                } else {
                    "output:wrong"
                }
            };
            let first = got.iter().zip(&exp).position(|(a, b)| a != b).unwrap_or(got.len().min(exp.len()));
            return v(class, format!("output differs from sequential map at position {first}: got {} items, expected {}", got.len(), exp.len()));
        }
        if !r.panics.is_empty() {
            return v("panic", format!("simulated thread panicked: {:?}", r.panics));
        }
        // exactly-once processing, pulls, ordering invariants on the history
        let n = self.n;
        let mut starts = vec![0u32; n];
        let mut ends = vec![0u32; n];
        let mut pulls = vec![0u32; n];
        let mut pull_end = 0u32;
        let mut fn_end_step = vec![u64::MAX; n];
        let mut in_flight_max = 0i64;
        let mut done = 0i64;
        let mut recvd = 0i64;
        let mut out_of_order = false;
        let mut max_end_seen: i64 = -1;
        for e in &r.events {
            match e.kind {
                Kind::Pull => {
                    if e.a as usize >= n {
                        return v("pull:beyond-end", format!("upstream item {} pulled, n={}", e.a, n));
                    }
                    pulls[e.a as usize] += 1;
                }
                Kind::PullEnd => pull_end += 1,
                Kind::FnStart if e.b == 0 => {
                    if e.a as usize >= n {
                        return v("process:beyond-end", format!("f called for index {} >= n={}", e.a, n));
                    }
                    starts[e.a as usize] += 1;
                }
                Kind::FnEnd if e.b == 0 => {
                    ends[e.a as usize] += 1;
                    fn_end_step[e.a as usize] = e.step;
                    done += 1;
                    if (e.a as i64) < max_end_seen {
                        out_of_order = true;
                    }
                    max_end_seen = max_end_seen.max(e.a as i64);
                    in_flight_max = in_flight_max.max(done - recvd);
                }
                Kind::Recv => {
                    recvd = if matches!(self.shape, Shape::Inference(..)) { recvd + 1 } else { e.a as i64 + 1 };
                    let i = e.a as usize;
                    if !matches!(self.shape, Shape::Inference(..)) && i < n && fn_end_step[i] == u64::MAX {
                        return v("order:recv-before-processed", format!("item {i} received before f({i}) finished"));
                    }
                }
                _ => {}
            }
        }
        let counted = !matches!(self.shape, Shape::Inference(..));
        for i in 0..n {
            if counted && (starts[i] != 1 || ends[i] != 1) {
                return v("process:not-exactly-once", format!("f({i}) started {} times, finished {} times", starts[i], ends[i]));
            }
            if pulls[i] != 1 {
                return v("pull:not-exactly-once", format!("upstream item {i} pulled {} times", pulls[i]));
            }
        }
        // (the number of end-of-stream probes is not part of the property: reported only)
        stats.probe_max("max_end_of_stream_probes", pull_end as u64);
        if !live_observed().is_empty() {
            return v("no-termination:threads-alive", format!("threads alive after the stream ended: {:?}", live_observed()));
        }
        if out_of_order {
            stats.probe("runs_with_out_of_order_completion", 1);
        }
        if in_flight_max > self.w as i64 {
            stats.probe("runs_with_full_channel_and_worker_waiting", 1);
        }
        stats.probe_max("max_items_processed_ahead_of_consumer", in_flight_max.max(0) as u64);
        if r.time_jumps > 0 {
            stats.probe("runs_with_virtual_time_jumps", 1);
        }
        None
    }
}

pub fn check(tier: Tier) -> i32 {
    let seed = base_seed();
    let cfg = SearchCfg {
        tier,
        base_seed: seed,
        runs: match tier {
            Tier::Quick => env_u64("VERIF_RUNS", 600_000),
            Tier::Thorough => env_u64("VERIF_RUNS", 12_000_000),
        },
        max_wall_s: match tier {
            Tier::Quick => 60.0,
            Tier::Thorough => 900.0,
        },
        workers: workers(),
    };
    let rep = search::<C05>(&cfg);
    let (code, newv) = conclude(&rep, seed);
    let mut explanation = format!(
        "{} simulated runs of src.pipe(f,W) and its compositions with buffered()/pipe() under the seeded scheduler ({} distinct schedules, {} distinct event histories); every run compared with the sequential map, exactly-once counters and termination.",
        rep.runs, rep.distinct_schedules, rep.distinct_histories
    );
    for p in ["runs_with_out_of_order_completion", "runs_with_full_channel_and_worker_waiting", "runs_with_virtual_time_jumps"] {
        if rep.stats.probes.get(p).copied().unwrap_or(0) == 0 {
            explanation.push_str(&format!(" PROBE-STUCK-AT-ZERO: {p}."));
        }
    }
    write_evidence(EvidenceInput {
        property: "C05",
        tier,
        seed,
        level: "exploration",
        rule: "one case = one generated scenario (N items, W workers, composition shape, per-item virtual delays for processing/upstream/consumer, scheduler mode) executed under one seeded schedule; distinct = distinct hash of the event history (pull/start/end/receive events with their task ids, in global order); non-trivial = at least two simulated tasks and at least two context switches",
        explanation,
        evaluations: rep.runs,
        distinct_nontrivial: rep.nontrivial_distinct,
        extra: serde_json::json!({
            "distinct_schedules": rep.distinct_schedules,
            "distinct_event_histories": rep.distinct_histories,
            "stopped_early_on_wall_clock": rep.stopped_early && rep.violations.is_empty(),
        }),
        samples: rep.samples.clone(),
        assumptions: vec![
            "shuttle's models of Mutex, SeqCst atomics and bounded mpsc channels are faithful to std".into(),
            "sampling of schedules and scenarios, not exhaustive".into(),
        ],
        wall_s: rep.wall_s,
        violations: newv,
        stats: &rep.stats,
        exhaustive: None,
    });
    out!(
        "C05 {}: {} runs, {} distinct non-trivial histories, {} distinct schedules, {:.1}s, violations={}",
        tier.name(), rep.runs, rep.nontrivial_distinct, rep.distinct_schedules, rep.wall_s, newv
    );
    code
}
