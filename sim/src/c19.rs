//! C19 — train_bpe is greedy-correct and emits a well-formed merge table, for
//! every number of counting threads, schedule and hash order.

use crate::c20::ScratchDir;
use crate::common::*;
use serde::{Deserialize, Serialize};
use std::collections::{BTreeMap, HashMap};
use std::sync::{Arc, Mutex};
use text_utils::text::{clean, count_words_whitespace};
use text_utils::tokenization::{train_bpe, BPETokenizer, BPETokenizerConfig, MergeOps, SpecialConfig, Tokenize};
use text_utils::unicode::{normalize, Normalization};
use text_utils::utils::SerializeMsgPack;
use verif_rt::prng::{derive, Rng};
use verif_rt::{run_process, ProcSpec, Status};

#[derive(Serialize, Deserialize, Clone, Debug)]
pub struct C19 {
    pub run_seed: u64,
    pub mode: SMode,
    pub files: Vec<String>,
    pub vocab_size: usize,
    pub num_special: usize,
    pub max_lines_per_file: Option<usize>,
    /// 0 = none, 1 = NFC, 2 = NFD, 3 = NFKC, 4 = NFKD
    pub normalization: u8,
    pub threads: Vec<u8>,
    /// the output path already holds the (longer) table of an earlier training run
    #[serde(default)]
    pub stale_output: bool,
    /// a second, unrelated training runs on another thread of the same process at the same time
    /// and writes next to the observed table (same file stem, other extension)
    #[serde(default)]
    pub twin_training: bool,
}

fn norm_of(n: u8) -> Option<Normalization> {
    match n {
        1 => Some(Normalization::NFC),
        2 => Some(Normalization::NFD),
        3 => Some(Normalization::NFKC),
        4 => Some(Normalization::NFKD),
        _ => None,
    }
}

const ALPHABETS: &[&[&str]] = &[
    &["a", "b"],
    &["a", "b", "c"],
    &["a", "b", "c", "d"],
    &["a", "ä", "b"],
    &["x", "y", "é", "ﬁ"],
    &["a", "b", ".", "-"],
    &["#", "a", "%", "\\"],
    &["a", "\u{0301}", "b"],
    // spacing diacritics whose NFKC / NFKD form starts with a space: "don\u{b4}t" splits in two
    &["n", "\u{00b4}", "t"],
    &["a", "\u{00a8}", "b"],
];

fn gen_word(rng: &mut Rng, alpha: &[&str]) -> String {
    match rng.below(6) {
        0 => {
            // repeated single letter: overlapping pairs
            let l = rng.usize(2, 5);
            alpha[0].repeat(l)
        }
        1 => {
            // alternating pattern
            let l = rng.usize(2, 3);
            format!("{}{}", alpha[0], alpha[1 % alpha.len()]).repeat(l)
        }
        _ => {
            let l = rng.usize(1, 5);
            (0..l).map(|_| *rng.pick(alpha)).collect()
        }
    }
}

fn gen_file(rng: &mut Rng, alpha: &[&str], pool: &[String]) -> String {
    let lines = rng.usize(0, 8);
    let mut s = String::new();
    for _ in 0..lines {
        if rng.chance(0.03) {
            // a line that is not valid UTF-8 on disk
            s.push_str(&format!("ab {}a b\n", crate::c20::BAD));
            continue;
        }
        let n = rng.usize(0, 6);
        let ws: Vec<String> = (0..n)
            .map(|_| if rng.chance(0.7) { rng.pick(pool).clone() } else { gen_word(rng, alpha) })
            .collect();
        let sep = match rng.below(16) {
            0 => "  ",
            1 => "\t",
            2 => "\u{00a0}",
            // every kind of Unicode white space separates words, also the unusual ASCII ones
            3 => "\u{000b}",
            4 => "\u{000c}",
            5 => "\u{2003}",
            6 => "\u{3000}",
            _ => " ",
        };
        if rng.chance(0.08) {
            s.push(' ');
        }
        s.push_str(&ws.join(sep));
        if rng.chance(0.08) {
            s.push(' ');
        }
        s.push_str(if rng.chance(0.1) { "\r\n" } else { "\n" });
    }
    s
}

type Seg = Vec<(Vec<Vec<u8>>, usize)>;

/// words (with leading whitespace, as the trainer counts them) of the corpus
fn reference_words(sc: &C19) -> BTreeMap<String, usize> {
    reference_words_with(sc, &vec![false; sc.files.len()])
}

/// Two readings of a line that is not valid UTF-8 are accepted per file: the line alone is
/// skipped (what the code does today, `stop_file[i] == false`) or reading of that file ends
/// there. Other files are never affected.
fn reference_words_with(sc: &C19, stop_file: &[bool]) -> BTreeMap<String, usize> {
    let mut counts: BTreeMap<String, usize> = BTreeMap::new();
    let take = sc.max_lines_per_file.unwrap_or(usize::MAX);
    for (fi, f) in sc.files.iter().enumerate() {
        for line in f.lines().take(take) {
            if line.contains(crate::c20::BAD) {
                if stop_file[fi] {
                    break;
                }
                continue;
            }
            let mut line = clean(line, true);
            if let Some(n) = norm_of(sc.normalization) {
                line = normalize(&line, n, true);
            }
            for (w, c) in count_words_whitespace(&line, true) {
                *counts.entry(w.to_string()).or_insert(0) += c;
            }
        }
    }
    counts
}

fn pair_freqs(seg: &Seg) -> HashMap<(Vec<u8>, Vec<u8>), usize> {
    let mut m = HashMap::new();
    for (w, f) in seg {
        for i in 1..w.len() {
            *m.entry((w[i - 1].clone(), w[i].clone())).or_insert(0) += f;
        }
    }
    m
}

fn apply_merge(seg: &Seg, a: &[u8], b: &[u8]) -> Seg {
    seg.iter()
        .map(|(w, f)| {
            let mut out: Vec<Vec<u8>> = Vec::with_capacity(w.len());
            let mut i = 0;
            while i < w.len() {
                if i + 1 < w.len() && w[i] == a && w[i + 1] == b {
                    let mut m = w[i].clone();
                    m.extend_from_slice(&w[i + 1]);
                    out.push(m);
                    i += 2;
                } else {
                    out.push(w[i].clone());
                    i += 1;
                }
            }
            (out, *f)
        })
        .collect()
}

/// Is `table[from..]` a greedy continuation of `seg`? Returns Err(index, reason) of the
/// deepest failure otherwise. Branches when two different pairs with the same
/// concatenation are both maximal (rare).
fn greedy_ok(seg: &Seg, table: &[Vec<u8>], from: usize, budget: &mut u32) -> Result<(), (usize, String)> {
    if from >= table.len() {
        return Ok(());
    }
    if *budget == 0 {
        return Ok(()); // give up silently rather than raise an unfounded alarm
    }
    *budget -= 1;
    let freqs = pair_freqs(seg);
    let max = freqs.values().copied().max().unwrap_or(0);
    let entry = &table[from];
    let cands: Vec<(&(Vec<u8>, Vec<u8>), &usize)> = freqs
        .iter()
        .filter(|((a, b), _)| a.len() + b.len() == entry.len() && entry.starts_with(a) && entry.ends_with(b))
        .collect();
    if cands.is_empty() || cands.iter().all(|(_, f)| **f == 0) {
        return Err((
            from,
            format!(
                "entry {from} = {:?} is not the concatenation of any adjacent token pair that occurs (best pair frequency in the corpus at this point: {max})",
                String::from_utf8_lossy(entry)
            ),
        ));
    }
    let best_cand = cands.iter().map(|(_, f)| **f).max().unwrap();
    if best_cand < max {
        return Err((
            from,
            format!(
                "entry {from} = {:?} merges a pair of frequency {best_cand} while a pair of frequency {max} exists",
                String::from_utf8_lossy(entry)
            ),
        ));
    }
    let mut deepest: Option<(usize, String)> = None;
    for ((a, b), f) in cands {
        if *f != max {
            continue;
        }
        match greedy_ok(&apply_merge(seg, a, b), table, from + 1, budget) {
            Ok(()) => return Ok(()),
            Err(e) => {
                if deepest.as_ref().map(|d| e.0 > d.0).unwrap_or(true) {
                    deepest = Some(e);
                }
            }
        }
    }
    Err(deepest.unwrap())
}

impl Scenario for C19 {
    const PROP: &'static str = "C19";
    const LABEL: u64 = 19;

    fn generate(run_seed: u64, _tier: Tier, _index: u64) -> Self {
        let mut rng = Rng::new(derive(run_seed, 1));
        let alpha = *rng.pick(ALPHABETS);
        let pool: Vec<String> = (0..rng.usize(1, 6)).map(|_| gen_word(&mut rng, alpha)).collect();
        let nfiles = rng.usize(1, 3);
        let mut files: Vec<String> = (0..nfiles).map(|_| gen_file(&mut rng, alpha, &pool)).collect();
        if rng.chance(0.1) {
            // the same content listed twice
            let dup = files[0].clone();
            files.push(dup);
        }
        if rng.chance(0.2) {
            // no newline at the end of the last file, or (half of the time) of any non-empty selection of
            // the files - a missing final newline in a file that is *not* the last one must not glue its
            // last line to the next file's first. The selection is derived from the run seed directly so
            // that no other parameter of the run changes.
            let pick = derive(run_seed, 77);
            let n = files.len();
            let mut mask: u64 = if pick & 1 == 0 { 1 << (n - 1) } else { (pick >> 1) % (1 << n) };
            if mask == 0 {
                mask = 1;
            }
            for (i, f) in files.iter_mut().enumerate() {
                if mask >> i & 1 == 1 {
                    while f.ends_with('\n') || f.ends_with('\r') {
                        f.pop();
                    }
                }
            }
        }
        let (vocab_size, num_special) = match rng.below(10) {
            0 => (256, 0),
            1 => (320, 0),
            2 => (384, rng.usize(0, 20)),
            _ => (320, rng.usize(64 - 24, 63)), // 1..24 merges: both exhausted and non-exhausted corpora
        };
        let mut ts: Vec<u8> = vec![0, 1, 2, 3, 4, if rng.chance(0.5) { 8 } else { 16 }];
        rng.shuffle(&mut ts);
        ts.truncate(rng.usize(1, 2));
        C19 {
            run_seed,
            mode: SMode::draw(&mut rng),
            files,
            vocab_size,
            num_special,
            max_lines_per_file: if rng.chance(0.25) { Some(rng.usize(0, 5)) } else { None },
            normalization: *rng.pick(&[0u8, 3, 3, 1, 2, 4]),
            threads: ts,
            stale_output: rng.chance(0.3),
            twin_training: false,
        }
        .with_twin(&mut rng)
    }

    fn run_seed(&self) -> u64 {
        self.run_seed
    }

    fn size(&self) -> u64 {
        self.files.iter().map(|f| f.len() as u64).sum::<u64>()
            + self.files.len() as u64
            + self.threads.len() as u64
            + (self.vocab_size - 256 - self.num_special.min(self.vocab_size - 256)) as u64
            + self.max_lines_per_file.is_some() as u64
            + (self.normalization != 0) as u64
    }

    fn shrink(&self) -> Vec<Self> {
        let mut v = vec![];
        if self.twin_training {
            let mut c = self.clone();
            c.twin_training = false;
            v.push(c);
        }
        if self.stale_output {
            let mut c = self.clone();
            c.stale_output = false;
            v.push(c);
        }
        if self.files.len() > 1 {
            for i in 0..self.files.len() {
                let mut c = self.clone();
                c.files.remove(i);
                v.push(c);
            }
        }
        for (fi, f) in self.files.iter().enumerate() {
            let lines: Vec<&str> = f.split_inclusive('\n').collect();
            if lines.len() > 1 {
                let mut c = self.clone();
                c.files[fi] = lines[..lines.len() / 2].concat();
                v.push(c);
                let mut c = self.clone();
                c.files[fi] = lines[lines.len() / 2..].concat();
                v.push(c);
            }
            for li in 0..lines.len() {
                let mut c = self.clone();
                let mut l = lines.clone();
                l.remove(li);
                c.files[fi] = l.concat();
                v.push(c);
            }
            for (li, l) in lines.iter().enumerate() {
                let words: Vec<&str> = l.trim_end_matches('\n').split(' ').collect();
                if words.len() > 1 {
                    for wi in 0..words.len() {
                        let mut w = words.clone();
                        w.remove(wi);
                        let mut ls: Vec<String> = lines.iter().map(|s| s.to_string()).collect();
                        ls[li] = format!("{}\n", w.join(" "));
                        let mut c = self.clone();
                        c.files[fi] = ls.concat();
                        v.push(c);
                    }
                }
                // shorten single words
                for (wi, w) in words.iter().enumerate() {
                    if w.chars().count() > 1 {
                        let mut ws: Vec<String> = words.iter().map(|s| s.to_string()).collect();
                        let mut cs: Vec<char> = w.chars().collect();
                        cs.pop();
                        ws[wi] = cs.into_iter().collect();
                        let mut ls: Vec<String> = lines.iter().map(|s| s.to_string()).collect();
                        ls[li] = format!("{}\n", ws.join(" "));
                        let mut c = self.clone();
                        c.files[fi] = ls.concat();
                        v.push(c);
                    }
                }
            }
        }
        // fewer merges
        let merges = self.vocab_size.saturating_sub(256).saturating_sub(self.num_special);
        if merges > 1 {
            for m in [merges / 2, merges - 1] {
                let mut c = self.clone();
                c.vocab_size = 320;
                c.num_special = 64 - m.clamp(1, 64);
                if m <= 64 && m >= 1 {
                    v.push(c);
                }
            }
        }
        if self.threads.len() > 1 {
            for i in 0..self.threads.len() {
                let mut c = self.clone();
                c.threads.remove(i);
                v.push(c);
            }
        }
        if self.max_lines_per_file.is_some() {
            let mut c = self.clone();
            c.max_lines_per_file = None;
            v.push(c);
        }
        if self.normalization != 0 {
            let mut c = self.clone();
            c.normalization = 0;
            v.push(c);
        }
        if self.mode != SMode::Uniform {
            let mut c = self.clone();
            c.mode = SMode::Uniform;
            v.push(c);
        }
        v
    }

    fn finding_signature(&self, v: &Violation) -> String {
        v.class.clone()
    }

    fn execute(&self, plan: &Plan) -> Outcome {
        let dir = ScratchDir::new("c19", self.run_seed);
        let mut paths = vec![];
        for (i, f) in self.files.iter().enumerate() {
            let p = dir.path(&format!("f{i}.txt"));
            std::fs::write(&p, crate::c20::file_bytes(f)).expect("write corpus file");
            paths.push(p);
        }
        let mut stats = RunStats::default();
        let mut traces = vec![];
        let mut hh = verif_rt::prng::Fnv::default();
        let mut lh = verif_rt::prng::Fnv::default();
        let mut diverged = false;
        let mut nontrivial = false;
        let mut violation = None;
        let words = reference_words(self);
        for (pi, t) in self.threads.iter().enumerate() {
            let mut spec = ProcSpec::new(
                self.mode.to_mode(),
                derive(self.run_seed, 100 + pi as u64),
                derive(self.run_seed, 200 + pi as u64),
            );
            spec.step_cap = 100_000;
            if let Plan::Replay { traces, strict } = plan {
                spec = spec.replaying(traces.get(pi).cloned().unwrap_or_default(), *strict);
            }
            let out_file = dir.path(&format!("merges{pi}.bin"));
            if self.stale_output {
                let mut stale = MergeOps::new();
                for i in 0..400u32 {
                    stale.insert(format!("zq{i}").into_bytes(), 256 + i);
                }
                stale.save(&out_file).expect("write stale table");
                stats.fault("output_path_holds_a_longer_table_of_an_earlier_run");
            }
            let of2 = out_file.clone();
            let sc = self.clone();
            let paths2 = paths.clone();
            let t = *t;
            let slot: Arc<Mutex<Option<Result<(), String>>>> = Arc::new(Mutex::new(None));
            let slot2 = slot.clone();
            let twin = if self.twin_training {
                let corpus = dir.path(&format!("twin{pi}.txt"));
                std::fs::write(&corpus, "zq zq zqx\nqz zq\nzq qq zq\n").expect("write twin corpus");
                stats.fault("second_training_on_another_thread_writing_next_to_the_table");
                Some((corpus, dir.path(&format!("merges{pi}.alt"))))
            } else {
                None
            };
            let twin_out = twin.as_ref().map(|t| t.1.clone());
            let twin_res: Arc<Mutex<Option<Result<(), String>>>> = Arc::new(Mutex::new(None));
            let twin_res2 = twin_res.clone();
            let r = run_process(&spec, move || {
                let other = twin.map(|(corpus, out)| {
                    let tr = twin_res2.clone();
                    verif_rt::shim::std::thread::spawn(move || {
                        let res = train_bpe(&[corpus], 320, 61, &out, None, None, 1, false);
                        *tr.lock().unwrap() = Some(res.map_err(|e| format!("{e:#}")));
                    })
                });
                let res = train_bpe(
                    &paths2,
                    sc.vocab_size,
                    sc.num_special,
                    &of2,
                    sc.max_lines_per_file,
                    norm_of(sc.normalization),
                    t,
                    false,
                );
                *slot2.lock().unwrap() = Some(res.map_err(|e| format!("{e:#}")));
                if let Some(h) = other {
                    let _ = h.join();
                }
            });
            if let Some(out) = &twin_out {
                // the other training is not the subject, but it must have produced its own table
                let tres = twin_res.lock().unwrap().take();
                if violation.is_none() && r.status == Status::Completed {
                    match tres {
                        Some(Ok(())) => match MergeOps::load(out) {
                            Ok(ops) if ops.len() <= 3 => {}
                            Ok(ops) => violation = Some(Violation { class: "twin:table-wrong".into(), detail: format!("num_threads={t}: the concurrent training (3 merges requested) left a table of {} entries", ops.len()) }),
                            Err(e) => violation = Some(Violation { class: "twin:table-unreadable".into(), detail: format!("num_threads={t}: the concurrent training left no readable table: {e:#}") }),
                        },
                        Some(Err(e)) => violation = Some(Violation { class: "twin:error".into(), detail: format!("num_threads={t}: the concurrent training failed: {e}") }),
                        None => {}
                    }
                }
            }
            stats.absorb_proc(&r);
            stats.probe_max("max_decisions_in_one_run", r.decisions);
            stats.fault("fresh_hash_keys_per_process");
            stats.fault(&format!("num_threads_{t}"));
            hh.u64(r.history_hash);
            for x in &r.trace {
                hh.u64(*x as u64);
            }
            lh.u64(r.log_hash);
            // the emitted table depends on hash order (ties): part of the fingerprint, so
            // that the determinism self-test covers the simulated OS entropy
            if let Ok(bytes) = std::fs::read(&out_file) {
                lh.bytes(&bytes);
            }
            stats.probe("os_entropy_requests_served_from_the_run_seed", r.entropy_calls);
            diverged |= r.status == Status::ReplayDiverged;
            nontrivial |= r.max_tasks >= 3 && r.switches >= 3;
            traces.push(r.trace.clone());
            if diverged || violation.is_some() {
                continue;
            }
            let res = slot.lock().unwrap().take();
            violation = match (&r.status, res) {
                (Status::Completed, Some(Ok(()))) => {
                    let bad = crate::c20::files_with_bad_lines(&self.files);
                    if bad.is_empty() {
                        self.judge(t, &out_file, &words, &mut stats)
                    } else {
                        stats.probe("runs_with_undecodable_lines", 1);
                        let mut first = None;
                        let mut accepted = false;
                        for mask in 0..(1u32 << bad.len().min(4)) {
                            let mut stop = vec![false; self.files.len()];
                            for (bit, fi) in bad.iter().enumerate().take(4) {
                                stop[*fi] = mask & (1 << bit) != 0;
                            }
                            let mut tmp = RunStats::default();
                            match self.judge(t, &out_file, &reference_words_with(self, &stop), &mut tmp) {
                                None => {
                                    stats.merge(&tmp, &[]);
                                    accepted = true;
                                    break;
                                }
                                Some(v) => {
                                    if first.is_none() {
                                        first = Some(v);
                                    }
                                }
                            }
                        }
                        if accepted {
                            None
                        } else {
                            first.map(|mut v| {
                                v.detail = format!("(with undecodable lines; no accepted reading of them explains the table) {}", v.detail);
                                v
                            })
                        }
                    }
                }
                (Status::Completed, Some(Err(e))) => Some(Violation { class: "train:error".into(), detail: format!("num_threads={t}: train_bpe returned an error: {e}") }),
                (s, _) => {
                    let class = match s {
                        Status::MainPanic(_) => "train:panic".to_string(),
                        other => format!("no-termination:{}", other.class()),
                    };
                    Some(Violation {
                        class,
                        detail: format!("num_threads={t}: run ended as {s:?}; threads alive {:?}", r.live_threads().iter().map(|x| &x.name).collect::<Vec<_>>()),
                    })
                }
            };
        }
        stats.param("files", self.files.len() as i64);
        stats.param("distinct_words", words.len() as i64);
        Outcome {
            violation: if diverged { None } else { violation },
            nontrivial,
            diverged,
            traces,
            log_hash: lh.0,
            history_hash: hh.0,
            stats,
        }
    }
}

impl C19 {
    fn with_twin(mut self, rng: &mut Rng) -> Self {
        self.twin_training = rng.chance(0.15);
        self
    }
    fn judge(&self, t: u8, out_file: &str, words: &BTreeMap<String, usize>, stats: &mut RunStats) -> Option<Violation> {
        let v = |class: &str, detail: String| Some(Violation { class: class.into(), detail });
        let requested = self.vocab_size.saturating_sub(256).saturating_sub(self.num_special);
        stats.param("requested_merges", requested as i64);
        let ops: MergeOps = match MergeOps::load(out_file) {
            Ok(o) => o,
            Err(e) => return v("table:unreadable", format!("num_threads={t}: cannot load the written table: {e:#}")),
        };
        let n = ops.len();
        if n > requested {
            return v("table:too-many", format!("num_threads={t}: {n} entries, {requested} merges requested"));
        }
        let mut by_id: BTreeMap<u32, Vec<u8>> = BTreeMap::new();
        for (k, id) in &ops {
            if by_id.insert(*id, k.clone()).is_some() {
                return v("ids:duplicate", format!("num_threads={t}: merge id {id} assigned twice"));
            }
        }
        let ids: Vec<u32> = by_id.keys().copied().collect();
        if ids != (0..n as u32).collect::<Vec<_>>() {
            return v(
                "ids:not-contiguous",
                format!("num_threads={t}: merge ids are {ids:?}, expected exactly 0..{n} ({requested} merges requested, {} distinct words)", words.len()),
            );
        }
        let table: Vec<Vec<u8>> = by_id.into_values().collect();
        let seg: Seg = words.iter().map(|(w, c)| (w.as_bytes().iter().map(|b| vec![*b]).collect(), *c)).collect();
        let mut budget = 4000u32;
        if let Err((i, why)) = greedy_ok(&seg, &table, 0, &mut budget) {
            return v("greedy:violated", format!("num_threads={t}: {why} (entry {i} of {n})"));
        }
        // was the corpus exhausted before the requested number of merges?
        if n < requested {
            stats.probe("runs_where_corpus_exhausted_before_requested_merges", 1);
            // then no pair may be left
            let mut s = seg.clone();
            let mut ok = true;
            // re-derive the final segmentation along one greedy path
            for e in &table {
                let freqs = pair_freqs(&s);
                let max = freqs.values().copied().max().unwrap_or(0);
                let c = freqs.iter().find(|((a, b), f)| **f == max && a.len() + b.len() == e.len() && e.starts_with(a) && e.ends_with(b));
                match c {
                    Some(((a, b), _)) => s = apply_merge(&s, a, b),
                    None => {
                        ok = false;
                        break;
                    }
                }
            }
            if ok && pair_freqs(&s).values().any(|f| *f > 0) {
                stats.probe("runs_where_training_stopped_early_with_pairs_left", 1);
            }
        } else {
            stats.probe("runs_with_all_requested_merges", 1);
        }
        {
            // ties among maximal pairs at some step (hash order decides)
            let freqs = pair_freqs(&seg);
            let max = freqs.values().copied().max().unwrap_or(0);
            if max > 0 && freqs.values().filter(|f| **f == max).count() > 1 {
                stats.probe("runs_with_tie_among_maximal_pairs_at_first_merge", 1);
            }
        }
        // ---- a tokenizer built from the table: lossless + vocabulary-consistent, also when the
        //      vocabulary is limited to a prefix of the merges (max_vocab_size)
        let specials = SpecialConfig::default().tokens.len();
        let mut limits: Vec<(Option<usize>, usize)> = vec![(None, n)];
        if n >= 2 {
            limits.push((Some(256 + specials + n / 2), n / 2));
        }
        for (max_vocab_size, kept) in limits {
            let tok = match BPETokenizer::new(
                BPETokenizerConfig { merge_file: out_file.into(), max_vocab_size, use_graphemes: true },
                SpecialConfig::default(),
            ) {
                Ok(t) => t,
                Err(e) => return v("tokenizer:cannot-build", format!("num_threads={t}: {e:#}")),
            };
            let vocab = match tok.get_vocab() {
                Ok(v) => v,
                Err(e) => return v("tokenizer:get_vocab", format!("{e:#}")),
            };
            if vocab.len() != tok.vocab_size() {
                return v("tokenizer:vocab-size", format!("max_vocab_size={max_vocab_size:?}: get_vocab has {} entries, vocab_size() = {}", vocab.len(), tok.vocab_size()));
            }
            if vocab.len() != 256 + kept + specials {
                return v("tokenizer:vocab-size", format!("max_vocab_size={max_vocab_size:?}: vocabulary has {} entries, expected 256 + {kept} merges + {specials} special tokens", vocab.len()));
            }
            for (id, tokb) in vocab.iter().enumerate() {
                if tok.id_to_token(id as u32).as_ref() != Some(tokb) {
                    return v("tokenizer:id_to_token", format!("max_vocab_size={max_vocab_size:?}: id_to_token({id}) = {:?}, get_vocab()[{id}] = {:?}", tok.id_to_token(id as u32), tokb));
                }
                if let Ok(s) = std::str::from_utf8(tokb) {
                    if tok.token_to_id(s) != Some(id as u32) {
                        return v("tokenizer:token_to_id", format!("max_vocab_size={max_vocab_size:?}: token_to_id({s:?}) = {:?}, expected {id}", tok.token_to_id(s)));
                    }
                }
            }
            if tok.id_to_token(vocab.len() as u32).is_some() {
                return v("tokenizer:id_to_token", format!("id_to_token({}) beyond the vocabulary is Some", vocab.len()));
            }
            for i in 0..kept {
                if vocab.get(256 + i) != Some(&table[i]) {
                    return v("tokenizer:merge-id", format!("max_vocab_size={max_vocab_size:?}: vocabulary entry {} is not merge {i}", 256 + i));
                }
            }
            for w in words.keys() {
                let text = w.trim_start();
                let ids = match tok.tokenize(text, true) {
                    Ok(t) => t.token_ids,
                    Err(e) => return v("tokenizer:tokenize", format!("{e:#}")),
                };
                if ids.iter().any(|id| *id as usize >= vocab.len()) {
                    return v("tokenizer:invalid-id", format!("max_vocab_size={max_vocab_size:?}: tokenize({text:?}) = {ids:?} with vocabulary size {}", vocab.len()));
                }
                match tok.de_tokenize(&ids, true) {
                    Ok(back) if back == text => {}
                    other => return v("tokenizer:lossless", format!("max_vocab_size={max_vocab_size:?}: de_tokenize(tokenize({text:?})) = {other:?}")),
                }
            }
            if max_vocab_size.is_some() {
                stats.probe("tokenizers_with_limited_vocabulary_checked", 1);
            }
        }
        stats.probe("tables_checked", 1);
        None
    }
}

pub fn check(tier: Tier) -> i32 {
    let seed = base_seed();
    let cfg = SearchCfg {
        tier,
        base_seed: seed,
        runs: match tier {
            Tier::Quick => env_u64("VERIF_RUNS", 80_000),
            Tier::Thorough => env_u64("VERIF_RUNS", 3_000_000),
        },
        max_wall_s: match tier {
            Tier::Quick => 90.0,
            Tier::Thorough => 1200.0,
        },
        workers: workers(),
    };
    let rep = search::<C19>(&cfg);
    let (code, newv) = conclude(&rep, seed);
    let mut explanation = format!(
        "{} generated corpora over 2-4 letter alphabets (overlapping and repeated pairs, corpora that are exhausted before the requested number of merges) trained with 1-2 thread counts each in separate simulated processes ({} processes) under seeded schedules and per-process hash keys; every emitted table is re-derived step by step by an independent recount of adjacent-pair frequencies (any maximal pair accepted), ids must be exactly 0..n-1 with n <= requested, and a BPETokenizer built from the table must be lossless and vocabulary-consistent on the corpus.",
        rep.runs, rep.stats.processes
    );
    for p in ["runs_where_corpus_exhausted_before_requested_merges", "runs_with_all_requested_merges", "runs_with_tie_among_maximal_pairs_at_first_merge"] {
        if rep.stats.probes.get(p).copied().unwrap_or(0) == 0 {
            explanation.push_str(&format!(" PROBE-STUCK-AT-ZERO: {p}."));
        }
    }
    write_evidence(EvidenceInput {
        property: "C19",
        tier,
        seed,
        level: "exploration",
        rule: "one case = one generated corpus (1-3 files) + (vocab_size, num_special_tokens, max_lines_per_file, normalisation) trained under 1-2 thread counts, each in its own simulated process with its own schedule and hash keys; distinct = distinct hash of the per-process schedules and thread histories; non-trivial = some process had at least three tasks and three context switches",
        explanation,
        evaluations: rep.runs,
        distinct_nontrivial: rep.nontrivial_distinct,
        extra: serde_json::json!({
            "distinct_schedules": rep.distinct_schedules,
            "stopped_early_on_wall_clock": rep.stopped_early && rep.violations.is_empty(),
        }),
        samples: rep.samples.clone(),
        assumptions: vec![
            "the reference obtains the words of a line through the library's pure functions clean/normalize/count_words_whitespace".into(),
            "ties among maximal pairs are the implementation's choice (hash order): any maximal pair is accepted".into(),
            "shuttle's models of Mutex and bounded mpsc channels are faithful to std".into(),
        ],
        wall_s: rep.wall_s,
        violations: newv,
        stats: &rep.stats,
        exhaustive: None,
    });
    out!(
        "C19 {}: {} runs ({} simulated processes), {} distinct non-trivial, {:.1}s, violations={}",
        tier.name(), rep.runs, rep.stats.processes, rep.nontrivial_distinct, rep.wall_s, newv
    );
    code
}
