#!/bin/bash
# Full regression of the machinery itself (≈45 min). Run after any change to a generator,
# grid, shim or scheduler; nothing else may use ./check or patch /repo meanwhile.
#   1. sensitivity: every mutant patch gives its expected result
#   2. quiet: the five quick checks under nine base seeds on the current tree
#   3. determinism: two worker counts give the same logs
#   4. the simulator's own primitives
#   5. the repository's own test suite, guard off
cd "$(dirname "$0")"
OUT="${TMPDIR:-/tmp}/verif-regress-out"; mkdir -p "$OUT"
mutants/run.sh 2>&1 | grep -E "MISMATCH|PATCH-FAILED|^sensitivity"
q=0; t=0
for s in 1 2 3 4 5 6 7 8 9; do
  for id in C05 C08 C09 C19 C20; do
    t=$((t+1))
    o=$(VERIF_SEED=$s VERIF_OUT="$OUT" ./check $id quick 2>&1); c=$?
    if [ $c -eq 0 ] && ! echo "$o" | grep -q '^VIOLATION'; then q=$((q+1)); else echo "NOT QUIET seed=$s $id exit=$c"; echo "$o" | tail -4; fi
  done
done
echo "quiet: $q of $t"
a=$(VERIF_WORKERS=16 ./check selftest-determinism 2>&1 | grep ' log=' | sort | md5sum)
b=$(VERIF_WORKERS=7 ./check selftest-determinism 2>&1 | grep ' log=' | sort | md5sum)
c=$(VERIF_WORKERS=16 ./check selftest-determinism 2>&1 | grep ' log=' | sort | md5sum)
if [ "$a" = "$b" ] && [ "$a" = "$c" ]; then echo "determinism SAME (16 workers twice, 7 workers once)"; else echo "determinism DIFFERENT"; fi
./check selftest-primitives 2>&1 | grep -c "primitive selftest ok"   # 9 expected
(cd /repo && cargo test --workspace --no-fail-fast --offline 2>&1 | grep -E "^test result" | head -3)
rm -rf "$OUT"
