#!/usr/bin/env python3
"""Generates MANIFEST.json (kept as a script so that the per-property texts live in one place)."""
import json, subprocess

NA = {
 "C01": "pure function of (string, tokenizer configuration): no thread, clock, I/O, fault or interleaving for a simulator to choose; seeded input generation alone would be property-based testing, not simulation",
 "C02": "pure function of (string, merge table); the one sentence of C19 that relies on it is exercised there on trained tables",
 "C03": "pure function of (string, merge table): nothing to schedule, delay, crash or fault",
 "C04": "pure function of the tokenizer configuration: nothing to schedule, delay, crash or fault",
 "C06": "Batched is a sequential iterator adapter whose output depends only on item sequence, configuration and seed, never on timing (its partition invariant is monitored inside C08 runs but not claimed)",
 "C07": "sequential iterator, pure in (source lengths, strategy, seed); driven with real files inside C08 runs but its exactly-once claim over all length vectors is an input-space claim",
 "C10": "pure functions of their string arguments",
 "C11": "pure functions of their string argument",
 "C12": "pure functions of (a, b, flags)",
 "C13": "pure in their inputs; they run on rayon's global pool, a thread pool inside a dependency that the simulator cannot own, and the property quantifies over inputs and configurations only",
 "C14": "deterministic function of (text, probabilities, seed): no schedule, clock or fault involved",
 "C15": "pure function of (word, edit tables, random stream, exclusion set)",
 "C16": "pure function of (text, window configuration)",
 "C17": "pure functions of tokenizer output / batches",
 "C18": "pure functions of two texts",
}

PENDING = {}

def check(pid, category, text, note, technique, design_ref):
    return {
        "property_id": pid,
        "quick_cmd": f"./check {pid} quick",
        "thorough_cmd": f"./check {pid} thorough",
        "evidence_file": f"/verif/evidence/{pid}.json",
        "replay_cmd_template": "./check replay {path}",
        "engine": "sim",
        "level_claimed": {"category": category, "text": text, "design_ref": design_ref},
        "level_note": note,
        "technique": technique,
    }

TRUST = ("Trusted: shuttle 0.9.3's models of std Mutex (incl. poisoning), SeqCst atomics and bounded/rendezvous mpsc channels; "
         "the harness scheduler and oracles; process::exit modelled as 'nothing observable afterwards'. Weak-memory effects and real OS timing are out of reach. "
         "Sampling of schedules/scenarios, so a clean run is evidence, not proof.")

CHECKS = {
 "C05": check("C05", "exploration",
    "Seeded search over thread schedules and virtual processing / upstream / consumer delays (from zero to 90 s of virtual time, so that anything with a time-out sees it fire) of the real Pipe, its compositions with Buffered and a second Pipe, and the real InferenceLoader: N = 0..40 items (rarely 255..512), W = 0..6 workers (rarely 16 / 255), upstream with or without an exact size_hint, consumer that polls again after the end. Every run is compared exactly with the sequential map (for the InferenceLoader: with a sequential window-and-tokenize reference), with exactly-once call counters from the event history and with termination of every worker thread. The failure windows are single statements wide, which only a scheduler that switches exactly there reaches; exhaustive enumeration is infeasible (busy-wait loop), so exploration is the honest level. Later additions (DESIGN.md 8.2): positional and consuming adaptors (nth / skip / step_by, count / last / for_each), a demand-fed (closed-loop) upstream, a process history of 1-260 earlier pipes abandoned early, a shared worker pool of 1-8 threads (rayon::spawn seam), 1-64 CPUs reported by available_parallelism, a consumer that asks for size_hint() before every call.",
    TRUST, "deterministic simulation: seeded scheduler + virtual clock over real Pipe/Buffered code, sequential-map oracle on the recorded history", "DESIGN.md 3 (C05)"),
 "C09": check("C09", "fault_enumeration",
    "The fault grid (about 2 800 cells) is enumerated completely and inside each cell thread schedules, delay patterns and the upstream's size_hint are sampled from the seed: consumer drop after k = 0..8 (and 60 / 150 with a slow consumer) items with or without an idle consumer (2 ms and 30 s of virtual time); a panic of the processing function or of the upstream iterator (ticket lock held) on item j = 0..8, also on one of the last 1-3 items of a bounded stream; shapes pipe / buffered / pipe+buffered, W = 0..4 plus 16 and 255, B = 0..3 plus 16 and 100, bounded and unbounded upstream; the real InferenceLoader and the real TrainLoader abandoned mid-epoch; histories with a second component in the process (train_bpe called between loader creation and the panic; a second pipe created before / after the observed one, dropped or alive). Oracles, no stronger than the statement: a generous linear look-ahead envelope 8*(W+B)+16 at every event, every background thread exits after the drop within the step cap, and a worker panic ends in ProcessExit(code != 0) reached through the repository's own code (its hook closure or the worker's exit-on-panic guard), never in a blocked or spinning consumer. Later additions to the grid (DESIGN.md 8.2): a panic raised on a helper thread; foreign code setting / taking the panic hook between two pipes; a pipe built while another one's workers fail; train_bpe on another thread while the loader is created; stalled standard output; a demand-fed upstream closed only after the drop; straggler items. Fault points are few and discrete, so enumerating them is right; schedules are not enumerable (busy-wait), so they are sampled.",
    TRUST, "deterministic simulation with enumerated fault injection (drop / panic / idle) under a seeded scheduler, unbounded upstream, simulated process::exit and panic hook", "DESIGN.md 3 (C09)"),
 "C20": check("C20", "exploration",
    "Seeded search over generated corpora and options (max_size None/0/1/<|V|/=|V|/>|V|, max_sequences incl. 0 and cuts across file boundaries, words / char 1-grams / char 3-grams), each created with 2-3 different num_threads values in separate simulated processes under seeded thread schedules and per-process hash keys (simulated OS entropy). Every result is compared with an independent sequential count / top-k / argmin reference, with the results of the other thread counts (must be identical), and through save->load; get_closest is checked for minimal distance and maximal frequency among ties. The thread-count and schedule independence and the dependence of tie-breaks on per-process hash order are exactly what a simulator can vary and a unit test cannot. Later additions: undecodable lines (two accepted readings per file), files without a final newline, unusual whitespace and grapheme-extending characters, a stale longer file at the save path.",
    TRUST + " The reference obtains tokens and distances through the library's pure text functions (clean, normalize, split_words, edit::distance).", "deterministic simulation: seeded schedules x thread counts x simulated OS entropy over real Dictionary::create/save/load/get_closest, sequential reference model as oracle", "DESIGN.md 3 (C20)"),
 "C19": check("C19", "exploration",
    "Seeded search over generated corpora on 2-4 letter alphabets (overlapping pairs such as 'aaa'/'abab', repeated words, corpora exhausted before the requested number of merges), vocab sizes / special-token counts / normalisation / max_lines_per_file, trained by the real train_bpe with 0..4 counting threads in separate simulated processes under seeded schedules and per-process hash keys (which decide ties among maximal pairs). The emitted table is read back and re-derived step by step by an independent recount of adjacent-pair frequencies from scratch (any maximal pair accepted, branching on ambiguous concatenations), ids must be exactly 0..n-1 with n <= requested, and a BPETokenizer built from the file must be lossless and vocabulary-consistent on the corpus. Termination (no deadlock on the count channel) is required for every thread count. Later additions: undecodable lines, a stale longer table at the output path, a second unrelated training on another thread of the same process writing next to the table.",
    TRUST + " The reference obtains the words of a line through the library's pure functions clean/normalize/count_words_whitespace.", "deterministic simulation: seeded schedules x thread counts x simulated OS entropy over real train_bpe, independent greedy-BPE recount as oracle", "DESIGN.md 3 (C19)"),
 "C08": check("C08", "exploration",
    "Seeded search over histories of the real TrainLoader (driven through the guarded Rust driver that makes the calls the Python binding makes): generated jsonl files whose items carry unique ids, pipeline configurations (whitespace / spelling corruption with a characters file that has frequency ties, switch, chain, substrings, three tasks, token masking / clipping), loader options (strategy, shuffle, sort, prefetch, batch limit and type, seed, epoch, skip, limit). Every loader instance is its own simulated process with its own thread schedule and OS entropy: a reference instance is compared with the same configuration under other (num_threads, buffer_size) (batch-for-batch identical), with all ranks of a world of 2-4 (disjoint, union equal, each item identical, rank positions), with a skip=k / limit=k split, with a crash (loader dropped mid-epoch at an arbitrary schedule point) followed by a restart with fast_forward(k) in a fresh process, optionally distributed, with a second iter() on the same loader object, and with a second loader living in the same process. Half of the instances are driven with the call sequence of the Python trainer (iter, then set_epoch / set_fast_forward, then iter again). The oracle is metamorphic (streams of the implementation compared with each other by item id), so no seed-derivation formula is baked in. Later additions: consumer pauses of 5-60 s of virtual time, next() called again after the end of the epoch, the two setters called in either order, a companion loader that starts new passes while the observed one is mid-epoch, iter() called twice in a row after the setters (what `for b in iter(loader)` does).",
    TRUST + " A defect that changes every stream in the same way is invisible to a metamorphic oracle. Order-sensitive clauses are judged only when no line/item was dropped on the way.", "deterministic simulation: loader instances as simulated processes (seeded schedules, simulated OS entropy, crash/restart with fast_forward) over the real TrainLoader; metamorphic stream comparison by item id", "DESIGN.md 3 (C08)"),
}

def main():
    hooks_commits = subprocess.run(["git", "-C", "/repo", "log", "--format=%H %s", "--grep=^verif hook"], capture_output=True, text=True).stdout.strip().splitlines()
    na = dict(NA); na.update({k: v for k, v in PENDING.items() if k not in CHECKS})
    m = {
        "version": 1,
        "setup_cmd": "./check build",
        "hooks": {
            "guard": "--cfg text_utils_verif (rustc cfg)",
            "enable": "checks build /repo/src through a generated shadow manifest (/verif/sim/shadow/Cargo.toml: package text-utils, [lib] path=/repo/src/lib.rs, the repository's dependency list + shuttle + verif_rt) with RUSTFLAGS='--cfg text_utils_verif' (see /verif/sim/.cargo/config.toml); /repo/Cargo.toml and Cargo.lock are not used for that build",
            "baseline_off_cmd": "cd /repo && cargo test --workspace --no-fail-fast --offline",
            "source_commits": [c.split()[0] for c in hooks_commits],
            "add_only": True,
        },
        "engines": [{
            "name": "sim",
            "path": "/verif/sim",
            "serves_properties": sorted(CHECKS),
            "kind_free_text": "deterministic simulation with fault injection: own seeded Scheduler on shuttle's execution engine, virtual clock, simulated process exit / panic hook / OS entropy, event-history oracles, minimising replay files",
        }],
        "checks": [CHECKS[k] for k in sorted(CHECKS)],
        "not_applicable": [{"property_id": k, "reason": na[k]} for k in sorted(na)],
        "notes": "All claimed properties are decided by one technique family (deterministic simulation with fault injection). VERIF_SEED selects the base seed (default 1); VERIF_WORKERS the number of worker processes (default 16). Exit 2 = harness error.",
    }
    json.dump(m, open("/verif/MANIFEST.json", "w"), indent=1)
    print("wrote MANIFEST.json:", sorted(CHECKS), "n/a:", sorted(na))

if __name__ == "__main__":
    main()
