//! Fidelity probe: the *shipped* Pipe / Buffered code (guard off, real std Mutex /
//! atomics / mpsc / threads / process::exit) on tiny workloads under Miri's seeded
//! scheduler, data-race detector and weak-memory emulation. It asserts the same
//! things the shuttle-based checks assert; agreement is a second opinion on the
//! stand-ins, nothing more.
//!
//!   miri-probe map   <n> <w> <b|->          sequential-map equality (C05)
//!   miri-probe drop  <n> <w> <b|-> <k>      consume k, drop, all threads exit, bounded pulls (C09)
//!   miri-probe panic <n> <w> <j>            f panics on item j: process must exit with code 1 (C09)
use std::sync::atomic::{AtomicBool, AtomicUsize, Ordering};
use std::sync::Arc;
use text_utils::data::loading::{BufferedIterator, PipelineIterator};
use text_utils::data::Pipeline;

struct Upstream {
    next: u64,
    n: u64,
    pulled: Arc<AtomicUsize>,
    dropped: Arc<AtomicBool>,
}

impl Iterator for Upstream {
    type Item = u64;
    fn next(&mut self) -> Option<u64> {
        if self.next >= self.n {
            return None;
        }
        self.pulled.fetch_add(1, Ordering::SeqCst);
        self.next += 1;
        Some(self.next - 1)
    }
}

impl Drop for Upstream {
    fn drop(&mut self) {
        self.dropped.store(true, Ordering::SeqCst);
    }
}

fn f_val(x: u64) -> u64 {
    x.wrapping_mul(0x9E37_79B9_7F4A_7C15) ^ 0x5bd1_e995
}

fn main() {
    let a: Vec<String> = std::env::args().collect();
    let mode = a[1].as_str();
    let n: u64 = a[2].parse().unwrap();
    let w: u8 = a[3].parse().unwrap();
    let pulled = Arc::new(AtomicUsize::new(0));
    let dropped = Arc::new(AtomicBool::new(false));
    let up = Upstream { next: 0, n, pulled: pulled.clone(), dropped: dropped.clone() };
    match mode {
        "map" => {
            let b: Option<usize> = a[4].parse().ok();
            let f: Pipeline<u64, u64> = Arc::new(f_val);
            let it: Box<dyn Iterator<Item = u64>> = match b {
                None => Box::new(up.pipe(f, w)),
                Some(b) => Box::new(up.pipe(f, w).buffered(b)),
            };
            let out: Vec<u64> = it.collect();
            assert_eq!(out, (0..n).map(f_val).collect::<Vec<_>>(), "not a sequential map");
            assert_eq!(pulled.load(Ordering::SeqCst) as u64, n);
            wait_dropped(&dropped, w);
        }
        "drop" => {
            let b: Option<usize> = a[4].parse().ok();
            let k: usize = a[5].parse().unwrap();
            let f: Pipeline<u64, u64> = Arc::new(f_val);
            let mut it: Box<dyn Iterator<Item = u64>> = match b {
                None => Box::new(up.pipe(f, w)),
                Some(b) => Box::new(up.pipe(f, w).buffered(b)),
            };
            for i in 0..k {
                assert_eq!(it.next(), Some(f_val(i as u64)));
            }
            drop(it);
            wait_dropped(&dropped, w);
            let env = 8 * (w as usize + b.unwrap_or(0)) + 16;
            assert!(pulled.load(Ordering::SeqCst) <= k + env, "pulled {} after consuming {k}", pulled.load(Ordering::SeqCst));
        }
        "panic" => {
            let j: u64 = a[4].parse().unwrap();
            let f: Pipeline<u64, u64> = Arc::new(move |x| {
                if x == j {
                    panic!("injected");
                }
                f_val(x)
            });
            let it = up.pipe(f, w);
            let got: Vec<u64> = it.collect();
            // reaching this line means the process did not terminate on the worker panic
            eprintln!("consumer saw the end of the stream after {} items although a worker panicked", got.len());
            std::process::exit(3);
        }
        _ => panic!("unknown mode"),
    }
    println!("ok");
}

/// all background threads own (a clone of the Arc around) the upstream: it is dropped
/// exactly when the last of them has exited
fn wait_dropped(dropped: &AtomicBool, w: u8) {
    if w == 0 {
        return;
    }
    let mut spins = 0u64;
    while !dropped.load(Ordering::SeqCst) {
        std::thread::yield_now();
        spins += 1;
        assert!(spins < 2_000_000, "background threads did not exit");
    }
}
