#!/bin/bash
# Miri fidelity probe (evidence only, never decides a check).
#   miri/run.sh [seeds-per-scenario, default 8]
set -u
HERE="$(cd "$(dirname "$0")" && pwd)"; cd "$HERE"
export CARGO_NET_OFFLINE=true CARGO_TARGET_DIR="${VERIF_MIRI_TARGET:-/verif/target/miri}"
S="${1:-8}"
./gen.sh || exit 2
flags="-Zmiri-preemption-rate=0.05 -Zmiri-disable-isolation"
ok=0; bad=0; total=0
run() { # expected-exit args...
  exp=$1; shift
  if [ "$exp" = 0 ]; then
    MIRIFLAGS="$flags -Zmiri-many-seeds=0..$S" timeout 900 cargo +nightly miri run --offline -q -- "$@" >/tmp/miri-probe.out 2>&1; c=$?
    total=$((total+S))
    if [ $c -eq 0 ]; then ok=$((ok+S)); else bad=$((bad+1)); echo "MIRI-PROBE FAIL: $* (exit $c)"; tail -15 /tmp/miri-probe.out; fi
  else
    for seed in $(seq 0 $((S-1))); do
      MIRIFLAGS="$flags -Zmiri-seed=$seed" timeout 300 cargo +nightly miri run --offline -q -- "$@" >/tmp/miri-probe.out 2>&1; c=$?
      total=$((total+1))
      if [ $c -eq "$exp" ]; then ok=$((ok+1)); else bad=$((bad+1)); echo "MIRI-PROBE FAIL: $* seed $seed (exit $c, expected $exp)"; tail -8 /tmp/miri-probe.out; fi
    done
  fi
}
cargo +nightly miri setup >/dev/null 2>&1
for w in 0 1 2 3; do for n in 0 1 5; do run 0 map $n $w -; done; done
run 0 map 6 2 0; run 0 map 6 3 2
for w in 1 2 3; do for k in 0 2; do run 0 drop 40 $w - $k; run 0 drop 40 $w 1 $k; done; done
for w in 1 2; do for j in 0 3; do run 1 panic 12 $w $j; done; done
echo "miri-probe: $ok executions agreed, $bad scenario failures, $total executions (real std primitives, Miri seeded scheduler + data-race detector)"
[ $bad -eq 0 ]
